// C17: Memory stream broker implements bounded-stream history semantics.
package c17

import (
	"context"
	"fmt"
	"sort"
	"strings"
	"sync"
	"sync/atomic"
	"testing"
	"testing/synctest"
	"time"

	"github.com/anishathalye/porcupine"
	"github.com/centrifugal/centrifuge"
	"github.com/centrifugal/centrifuge/verifx/kit"
	sm "github.com/centrifugal/centrifuge/verifx/streammodel"
)

const sec = time.Second

// scenariosPerCase scenarios share one bubble, Node and broker (distinct channels): the fixed cost of a
// bubble (Node construction, two forced GCs under the race detector) is ~0.3 s.
const scenariosPerCase = 8

// ---------------------------------------------------------------------------------------------
// sequential variant: step-by-step comparison with the reference model on a virtual clock

// chState is the reference model of one channel plus what the generator needs.
//
// Timing model (seconds resolution, as the API documents): a stored publish at
// time p with history TTL T keeps the retained entries at every instant
// <= p+T-1s and has dropped them at every instant >= p+T+1s; the same holds
// for the metadata with the meta TTL counted from the last stored publish or
// History call (HistoryOptions.MetaTTL / PublishOptions.HistoryMetaTTL /
// Config.HistoryMetaTTL). Inside the open 2 s window around a deadline nothing
// is asserted: the harness never operates on the channel there.
type chState struct {
	name    string
	m       sm.Stream
	epochs  []string // epoch observed for generation i ("" = not observed yet)
	hasData bool     // a data deadline is armed
	dataDL  time.Time
	hasMeta bool // the stream's metadata exists in the model
	metaDL  time.Time
	// last deadlines handed to the broker. The generator keeps deadlines
	// non-decreasing per channel while an older one is still pending, because the
	// statement does not say what a *shortened* TTL does to an already armed expiry.
	genData, genMeta time.Time
	lastClear        string // "ttl" | "remove" | "" : why the retained part is empty
	ttlCrossPending  bool   // model dropped non-empty data on TTL; next read confirms it
	metaCrossPending bool
}

type seqRun struct {
	c       *kit.Case
	b       *centrifuge.MemoryBroker
	rec     *sm.Recorder
	defMeta time.Duration
	chans   []*chState
	trace   []string
	nextID  int
	start   time.Time
	ops     int
	prefix  string
	// per-scenario observation flags for the non-trivial signature
	sawTTLCross, sawMetaCross, sawTrim, sawRemove, sawJustBefore bool
}

func (s *seqRun) at() string {
	return fmt.Sprintf("t=+%.3fs", time.Since(s.start).Seconds())
}

func (s *seqRun) logf(format string, a ...any) {
	ln := s.at() + " " + fmt.Sprintf(format, a...)
	if len(s.trace) < 400 {
		s.trace = append(s.trace, ln)
	}
	s.c.Logf("%s", ln)
}

func (s *seqRun) fail(class, msg string) {
	s.c.Violation(class, msg, map[string]any{"variant": "sequential", "config_history_meta_ttl": s.defMeta.String(), "trace": s.trace})
}

func (s *seqRun) sleep(d time.Duration) {
	if d <= 0 {
		return
	}
	time.Sleep(d)
	synctest.Wait() // let the broker's sweep loops finish the ticks that became due
}

func (s *seqRun) advance(cs *chState, now time.Time) {
	if cs.hasMeta && !now.Before(cs.metaDL.Add(sec)) {
		cs.m.DiscardMeta()
		cs.hasMeta, cs.hasData = false, false
		cs.lastClear = ""
		cs.ttlCrossPending = false
		cs.metaCrossPending = true
	}
	if cs.hasData && !now.Before(cs.dataDL.Add(sec)) {
		if len(cs.m.Entries) > 0 {
			cs.ttlCrossPending = true
			cs.lastClear = "ttl"
		}
		cs.m.Clear()
		cs.hasData = false
	}
}

// settle brings the model of cs up to the current instant and, if that instant is
// inside the unasserted window around one of the channel's deadlines, sleeps past it.
func (s *seqRun) settle(cs *chState) time.Time {
	for {
		now := time.Now()
		s.advance(cs, now)
		var until time.Time
		in := func(dl time.Time) bool {
			return now.After(dl.Add(-sec)) && now.Before(dl.Add(sec))
		}
		if cs.hasMeta && in(cs.metaDL) {
			until = cs.metaDL.Add(sec)
		}
		if cs.hasData && len(cs.m.Entries) > 0 && in(cs.dataDL) {
			if u := cs.dataDL.Add(sec); u.After(until) {
				until = u
			}
		}
		if until.IsZero() {
			return now
		}
		s.c.Count("ambiguous_window_skipped", 1)
		s.sleep(until.Sub(now))
	}
}

func ceilSec(d time.Duration) time.Duration {
	if d <= 0 {
		return sec
	}
	return ((d + sec - 1) / sec) * sec
}

// monotone returns ttl, raised if necessary so that now+ttl is not earlier than
// a deadline that is still pending in the broker.
func monotone(now, last time.Time, ttl time.Duration) time.Duration {
	if !last.IsZero() && now.Before(last.Add(sec)) && now.Add(ttl).Before(last) {
		return ceilSec(last.Sub(now))
	}
	return ttl
}

// metaChoice picks a meta TTL option (0 = use Config default) and returns the
// option and the effective TTL.
func (s *seqRun) metaChoice(cs *chState, now time.Time) (opt, eff time.Duration) {
	r := s.c.R
	if r.Chance(1, 2) {
		opt = time.Duration(kit.Pick(r, []int{2, 3, 4, 6, 10, 20, 40})) * sec
	}
	eff = opt
	if eff == 0 {
		eff = s.defMeta
	}
	if m := monotone(now, cs.genMeta, eff); m != eff {
		opt, eff = m, m
	}
	return
}

func (s *seqRun) touchMeta(cs *chState, now time.Time, eff time.Duration) {
	cs.hasMeta = true
	cs.metaDL = now.Add(eff)
	cs.genMeta = cs.metaDL
}

// observeEpoch binds / checks the epoch string of the model's current generation.
func (s *seqRun) observeEpoch(cs *chState, epoch, where string) bool {
	for len(cs.epochs) <= cs.m.Gen {
		cs.epochs = append(cs.epochs, "")
	}
	if epoch == "" {
		s.fail("empty-epoch-for-history-stream", fmt.Sprintf("%s on %q returned an empty epoch for a stream with history", where, cs.name))
		return false
	}
	g := cs.m.Gen
	if cs.epochs[g] == "" {
		for i := 0; i < g; i++ {
			if cs.epochs[i] == epoch {
				if i == g-1 {
					s.fail("metadata-survived-meta-ttl", fmt.Sprintf("%s on %q: epoch %s is still the one from before the meta TTL elapsed (more than 1 s ago); the stream metadata was not discarded", where, cs.name, epoch))
				} else {
					s.fail("epoch-reused-after-metadata-discard", fmt.Sprintf("%s on %q: fresh stream got the epoch %s of an earlier generation", where, cs.name, epoch))
				}
				return false
			}
		}
		cs.epochs[g] = epoch
		if cs.metaCrossPending && g > 0 {
			s.c.Count("meta_expired_new_epoch", 1)
			s.sawMetaCross = true
		}
		cs.metaCrossPending = false
		return true
	}
	if cs.epochs[g] != epoch {
		s.fail("epoch-changed-without-metadata-discard", fmt.Sprintf("%s on %q: epoch %s, but the stream's epoch was %s and its metadata has not reached its TTL (deadline %s away)", where, cs.name, epoch, cs.epochs[g], time.Until(cs.metaDL)))
		return false
	}
	return true
}

func (s *seqRun) publish(cs *chState) {
	r := s.c.R
	now := s.settle(cs)
	size := r.Range(1, 6)
	ttl := time.Duration(kit.Pick(r, []int{1, 2, 3, 5, 8, 13, 30})) * sec
	noHist := r.Chance(1, 10)
	var metaOpt, metaEff time.Duration
	if noHist {
		if r.Bool() {
			size = 0
		} else {
			ttl = 0
		}
		if r.Bool() {
			metaOpt = 5 * sec
		}
	} else {
		ttl = monotone(now, cs.genData, ttl)
		metaOpt, metaEff = s.metaChoice(cs, now)
	}
	id := fmt.Sprintf("p%d", s.nextID)
	s.nextID++
	s.ops++
	res, err := s.b.Publish(cs.name, []byte(id), centrifuge.PublishOptions{HistorySize: size, HistoryTTL: ttl, HistoryMetaTTL: metaOpt})
	dels := s.rec.Take()
	s.logf("Publish(%q,%s,size=%d,ttl=%s,metaTTL=%s) -> pos=%d/%s suppressed=%v err=%v", cs.name, id, size, ttl, metaOpt, res.StreamPosition.Offset, res.StreamPosition.Epoch, res.Suppressed, err)
	if err != nil {
		s.fail("publish-error", fmt.Sprintf("Publish returned %v", err))
		return
	}
	if res.Suppressed {
		s.fail("plain-publish-suppressed", "a publish without idempotency key and version was marked suppressed")
		return
	}
	if len(dels) != 1 || dels[0].Channel != cs.name || dels[0].ID != id {
		s.fail("publish-handler-calls", fmt.Sprintf("expected exactly one HandlePublication(%q,%s), got %+v", cs.name, id, dels))
		return
	}
	if noHist {
		s.c.Count("publish_without_history", 1)
		if res.StreamPosition != (centrifuge.StreamPosition{}) || dels[0].Offset != 0 {
			s.fail("no-history-publish-nonzero-position", fmt.Sprintf("publish without history returned position %+v (handler offset %d)", res.StreamPosition, dels[0].Offset))
		}
		return
	}
	before := len(cs.m.Entries)
	want := cs.m.Append(id, size)
	if len(cs.m.Entries) < before+1 {
		s.c.Count("trimmed_by_size", 1)
		s.sawTrim = true
	}
	cs.lastClear = ""
	cs.ttlCrossPending = false
	cs.hasData, cs.dataDL, cs.genData = true, now.Add(ttl), now.Add(ttl)
	s.touchMeta(cs, now, metaEff)
	if res.StreamPosition.Offset != want {
		cls := "publish-offset-not-previous-plus-one"
		if want == 1 && cs.m.Gen > 0 {
			cls = "metadata-survived-meta-ttl"
		}
		s.fail(cls, fmt.Sprintf("Publish on %q returned offset %d, the reference stream assigns %d", cs.name, res.StreamPosition.Offset, want))
		return
	}
	if !s.observeEpoch(cs, res.StreamPosition.Epoch, "Publish") {
		return
	}
	if dels[0].Offset != want || dels[0].SP != res.StreamPosition {
		s.fail("publish-handler-position", fmt.Sprintf("handler saw pub.Offset=%d sp=%+v, Publish returned %+v", dels[0].Offset, dels[0].SP, res.StreamPosition))
	}
}

// history issues one History call; full = read everything (used after clock jumps and at the end).
func (s *seqRun) history(cs *chState, full bool) {
	r := s.c.R
	now := s.settle(cs)
	metaOpt, metaEff := s.metaChoice(cs, now)
	var since *centrifuge.StreamPosition
	limit, reverse := -1, false
	weak := ""
	top := cs.m.Top
	if !full {
		reverse = r.Chance(2, 5)
		limit = kit.Pick(r, []int{-1, -1, 0, 1, 2, 3, len(cs.m.Entries) + 1})
		if r.Chance(3, 5) {
			var off uint64
			switch r.Intn(7) {
			case 0:
				off = 0
			case 1:
				off = top
			case 2:
				off = top + 1
			case 3:
				off = top + uint64(r.Range(2, 4))
			case 4:
				if len(cs.m.Entries) > 0 {
					off = cs.m.Entries[0].Offset - uint64(r.Intn(2))
				}
			default:
				off = uint64(r.Intn(int(top) + 2))
			}
			ep := ""
			if cs.m.Gen < len(cs.epochs) {
				ep = cs.epochs[cs.m.Gen]
			}
			switch r.Intn(10) {
			case 0:
				ep = ""
			case 1:
				ep = "NOTANEPO"
				weak = "since-epoch-mismatch"
			}
			if reverse && off > top+1 {
				weak = "reverse-since-beyond-top"
			}
			since = &centrifuge.StreamPosition{Offset: off, Epoch: ep}
		}
	}
	s.ops++
	pubs, sp, err := s.b.History(cs.name, centrifuge.HistoryOptions{Filter: centrifuge.HistoryFilter{Since: since, Limit: limit, Reverse: reverse}, MetaTTL: metaOpt})
	got := sm.EntriesOf(pubs)
	sinceStr := "nil"
	var sinceOff *uint64
	if since != nil {
		sinceStr = fmt.Sprintf("%d/%s", since.Offset, since.Epoch)
		o := since.Offset
		sinceOff = &o
	}
	s.logf("History(%q,since=%s,limit=%d,reverse=%v,metaTTL=%s) -> %s top=%d/%s err=%v", cs.name, sinceStr, limit, reverse, metaOpt, sm.Fmt(got), sp.Offset, sp.Epoch, err)
	s.touchMeta(cs, now, metaEff)
	if err != nil {
		s.fail("history-error", fmt.Sprintf("History returned %v", err))
		return
	}
	if sp.Offset != cs.m.Top {
		cls := "history-top-offset"
		switch {
		case cs.m.Top == 0 && cs.m.Gen > 0 && cs.metaCrossPending:
			cls = "metadata-survived-meta-ttl"
		case cs.lastClear == "ttl":
			cls = "top-offset-lost-on-ttl-expiry"
		case cs.lastClear == "remove":
			cls = "top-offset-lost-on-remove"
		}
		s.fail(cls, fmt.Sprintf("History on %q reports top offset %d, the reference stream has %d", cs.name, sp.Offset, cs.m.Top))
		return
	}
	if !s.observeEpoch(cs, sp.Epoch, "History") {
		return
	}
	want := cs.m.Read(sinceOff, limit, reverse)
	if weak != "" {
		s.c.Count("weak_"+strings.ReplaceAll(weak, "-", "_"), 1)
		if !sm.Equal(got, want) && len(got) != 0 {
			s.fail("history-content-differs-from-model", fmt.Sprintf("History on %q (%s) returned %s, neither empty nor the reference %s", cs.name, weak, sm.Fmt(got), sm.Fmt(want)))
		}
		return
	}
	if !sm.Equal(got, want) {
		cls := "history-content-differs-from-model"
		switch {
		case len(cs.m.Entries) == 0 && len(got) > 0 && cs.lastClear == "ttl":
			cls = "history-returned-after-ttl-expiry"
		case len(cs.m.Entries) == 0 && len(got) > 0 && cs.lastClear == "remove":
			cls = "history-returned-after-remove"
		case len(got) == 0 && len(want) > 0 && cs.hasData && now.Before(cs.dataDL):
			cls = "history-lost-before-ttl"
		}
		s.fail(cls, fmt.Sprintf("History on %q returned %s, reference %s (retained %s, top %d)", cs.name, sm.Fmt(got), sm.Fmt(want), sm.Fmt(cs.m.Entries), cs.m.Top))
		return
	}
	if since != nil {
		s.c.Count("since_reads", 1)
	}
	if reverse {
		s.c.Count("reverse_reads", 1)
	}
	if limit > 0 && len(want) == limit {
		s.c.Count("limit_cut_reads", 1)
	}
	if limit == 0 || limit == -1 {
		s.c.Count("limit_special_reads", 1)
	}
	if cs.ttlCrossPending && limit != 0 {
		// retained part confirmed empty, top and epoch confirmed preserved
		s.c.Count("ttl_expiry_crossed", 1)
		s.sawTTLCross = true
		cs.ttlCrossPending = false
	}
	if cs.hasData && len(want) > 0 && !now.Before(cs.dataDL.Add(-2*sec)) {
		s.c.Count("read_within_2s_before_ttl_deadline", 1)
		s.sawJustBefore = true
	}
	if cs.lastClear == "remove" && limit != 0 && cs.m.Top > 0 {
		s.c.Count("removed_stream_keeps_position", 1)
	}
}

func (s *seqRun) remove(cs *chState) {
	s.settle(cs)
	s.ops++
	err := s.b.RemoveHistory(cs.name)
	s.logf("RemoveHistory(%q) -> err=%v", cs.name, err)
	if err != nil {
		s.fail("remove-history-error", fmt.Sprintf("RemoveHistory returned %v", err))
		return
	}
	if cs.hasMeta {
		cs.lastClear = "remove"
		s.sawRemove = true
		s.c.Count("remove_history_calls", 1)
	}
	cs.m.Clear()
	cs.hasData = false
	cs.ttlCrossPending = false
}

// jump moves the virtual clock: usually to just before / just after a pending deadline.
func (s *seqRun) jump() {
	r := s.c.R
	now := time.Now()
	type target struct {
		cs *chState
		at time.Time
	}
	var ts []target
	for _, cs := range s.chans {
		s.advance(cs, now)
		extra := time.Duration(0)
		if r.Chance(1, 3) {
			extra = time.Duration(r.Intn(1500)) * time.Millisecond
		}
		if cs.hasData && len(cs.m.Entries) > 0 {
			ts = append(ts, target{cs, cs.dataDL.Add(-sec - extra)}, target{cs, cs.dataDL.Add(sec + extra)})
		}
		if cs.hasMeta && cs.metaDL.Sub(now) < 200*sec {
			ts = append(ts, target{cs, cs.metaDL.Add(-sec - extra)}, target{cs, cs.metaDL.Add(sec + extra)})
		}
	}
	var fut []target
	for _, t := range ts {
		if t.at.After(now) {
			fut = append(fut, t)
		}
	}
	if len(fut) == 0 || r.Chance(1, 4) {
		d := time.Duration(r.Range(1, 4000)) * time.Millisecond
		s.logf("sleep %s", d)
		s.sleep(d)
		return
	}
	t := kit.Pick(r, fut)
	s.logf("jump %s (to a deadline of %q -/+1s)", t.at.Sub(now), t.cs.name)
	s.sleep(t.at.Sub(now))
	s.c.Count("deadline_jumps", 1)
	if r.Chance(4, 5) {
		s.history(t.cs, true)
	}
}

func newBroker(c *kit.Case, defMeta time.Duration) (*centrifuge.Node, *centrifuge.MemoryBroker, *sm.Recorder, bool) {
	node, err := centrifuge.New(centrifuge.Config{HistoryMetaTTL: defMeta})
	if err != nil {
		c.Inconclusive("centrifuge.New failed: " + err.Error())
		return nil, nil, nil, false
	}
	b, err := centrifuge.NewMemoryBroker(node, centrifuge.MemoryBrokerConfig{})
	if err != nil {
		c.Inconclusive("NewMemoryBroker failed: " + err.Error())
		return nil, nil, nil, false
	}
	rec := &sm.Recorder{}
	if err := b.RegisterBrokerEventHandler(rec); err != nil {
		c.Inconclusive("RegisterBrokerEventHandler failed: " + err.Error())
		return nil, nil, nil, false
	}
	return node, b, rec, true
}

func runSequential(c *kit.Case, b *centrifuge.MemoryBroker, rec *sm.Recorder, defMeta time.Duration, prefix string) {
	r := c.R
	s := &seqRun{c: c, b: b, rec: rec, defMeta: defMeta, start: time.Now(), prefix: prefix}
	// de-phase the operations from the wall-second grid and the sweep loops
	time.Sleep(time.Duration(r.Intn(1000)) * time.Millisecond)
	nch := r.Range(1, 3)
	for i := 0; i < nch; i++ {
		s.chans = append(s.chans, &chState{name: fmt.Sprintf("%sch%d", prefix, i)})
	}
	n := r.Range(12, 45)
	for i := 0; i < n && !c.Violated(); i++ {
		cs := kit.Pick(r, s.chans)
		switch x := r.Intn(100); {
		case x < 42:
			s.publish(cs)
		case x < 72:
			s.history(cs, r.Chance(1, 5))
		case x < 78:
			s.remove(cs)
		default:
			s.jump()
		}
	}
	for _, cs := range s.chans {
		if c.Violated() {
			break
		}
		s.history(cs, true)
	}
	if !c.Violated() && r.Chance(1, 10) {
		s.observeShortenedTTL()
	}
	c.Eval(s.ops)
	if c.Violated() {
		return
	}
	c.Nontrivial(fmt.Sprintf("seq ttl=%v meta=%v trim=%v rm=%v before=%v ch=%d", s.sawTTLCross, s.sawMetaCross, s.sawTrim, s.sawRemove, s.sawJustBefore, len(s.chans)))
	if s.sawTTLCross && s.sawMetaCross {
		c.Sample(map[string]any{"variant": "sequential", "config_history_meta_ttl": s.defMeta.String(), "trace": head(s.trace, 40)})
	}
}

// observeShortenedTTL only counts (never asserts) what a shorter TTL on a later
// publish does to an expiry armed by an earlier one: the statement is silent on it.
func (s *seqRun) observeShortenedTTL() {
	ch := s.prefix + "obs"
	opts := func(ttl time.Duration) centrifuge.PublishOptions {
		return centrifuge.PublishOptions{HistorySize: 5, HistoryTTL: ttl, HistoryMetaTTL: 300 * sec}
	}
	_, _ = s.b.Publish(ch, []byte("o1"), opts(20*sec))
	s.sleep(sec)
	_, _ = s.b.Publish(ch, []byte("o2"), opts(2*sec))
	s.rec.Take()
	s.sleep(2*sec + 1500*time.Millisecond)
	pubs, _, _ := s.b.History(ch, centrifuge.HistoryOptions{Filter: centrifuge.HistoryFilter{Limit: -1}, MetaTTL: 300 * sec})
	if len(pubs) == 0 {
		s.c.Count("obs_shortened_ttl_expired_at_new_deadline", 1)
	} else {
		s.c.Count("obs_shortened_ttl_still_retained_after_new_deadline", 1)
	}
}

func head(xs []string, n int) []string {
	if len(xs) > n {
		return xs[:n]
	}
	return xs
}

// ---------------------------------------------------------------------------------------------
// concurrent variant: call/return histories checked for linearizability against the same model

type linIn struct {
	Ch       string
	Kind     string // pub | hist | rm
	ID       string
	Size     int // 0 = publish without history
	HasSince bool
	Since    uint64
	Limit    int
	Reverse  bool
}

type linOut struct {
	Offset  uint64
	Entries []sm.Entry
	Top     uint64
}

type linState struct {
	top     uint64
	entries []sm.Entry
}

func describe(in linIn, out linOut) string {
	switch in.Kind {
	case "pub":
		return fmt.Sprintf("Publish(%s,%s,size=%d)->%d", in.Ch, in.ID, in.Size, out.Offset)
	case "rm":
		return fmt.Sprintf("RemoveHistory(%s)", in.Ch)
	}
	since := "nil"
	if in.HasSince {
		since = fmt.Sprint(in.Since)
	}
	return fmt.Sprintf("History(%s,since=%s,limit=%d,rev=%v)->%s top=%d", in.Ch, since, in.Limit, in.Reverse, sm.Fmt(out.Entries), out.Top)
}

var linModel = porcupine.Model{
	Partition: func(h []porcupine.Operation) [][]porcupine.Operation {
		by := map[string][]porcupine.Operation{}
		var keys []string
		for _, op := range h {
			ch := op.Input.(linIn).Ch
			if _, ok := by[ch]; !ok {
				keys = append(keys, ch)
			}
			by[ch] = append(by[ch], op)
		}
		sort.Strings(keys)
		var out [][]porcupine.Operation
		for _, k := range keys {
			out = append(out, by[k])
		}
		return out
	},
	Init: func() interface{} { return linState{} },
	Step: func(state, input, output interface{}) (bool, interface{}) {
		st, in, out := state.(linState), input.(linIn), output.(linOut)
		switch in.Kind {
		case "pub":
			if in.Size == 0 {
				return out.Offset == 0, st
			}
			m := sm.Stream{Top: st.top, Entries: st.entries}
			off := m.Append(in.ID, in.Size)
			return out.Offset == off, linState{top: m.Top, entries: m.Entries}
		case "rm":
			return true, linState{top: st.top}
		default:
			var since *uint64
			if in.HasSince {
				since = &in.Since
			}
			want := sm.Filter(st.entries, since, in.Limit, in.Reverse)
			return out.Top == st.top && sm.Equal(want, out.Entries), st
		}
	},
	Equal: func(a, b interface{}) bool {
		x, y := a.(linState), b.(linState)
		return x.top == y.top && sm.Equal(x.entries, y.entries)
	},
	DescribeOperation: func(in, out interface{}) string { return describe(in.(linIn), out.(linOut)) },
}

// The linearizability search runs in a goroutine created outside every bubble
// (Spec.Setup), so that its timeout is a real one: inside a bubble a timer only
// fires once every bubbled goroutine is blocked, i.e. never while the search is busy.
type linJob struct {
	ops     []porcupine.Operation
	timeout time.Duration
}

var (
	linJobs chan linJob
	linRes  chan porcupine.CheckResult
)

func startLinWorker() {
	linJobs = make(chan linJob)
	linRes = make(chan porcupine.CheckResult)
	go func() {
		for j := range linJobs {
			res, _ := porcupine.CheckOperationsVerbose(linModel, j.ops, j.timeout)
			linRes <- res
		}
	}()
}

type opSpec struct {
	ch        int
	kind      string
	size      int
	sinceMode int // 0 none, 1 zero, 2 an offset this goroutine has seen
	sincePick int
	limit     int
	reverse   bool
}

func runConcurrent(c *kit.Case, b *centrifuge.MemoryBroker, rec *sm.Recorder, prefix string) {
	r := c.R
	nch := r.Range(1, 2)
	chans := make([]string, nch)
	for i := range chans {
		chans[i] = fmt.Sprintf("%scc%d", prefix, i)
	}
	G := r.Range(4, 8)
	scripts := make([][]opSpec, G)
	total := 0
	for g := range scripts {
		n := r.Range(4, 8)
		for k := 0; k < n; k++ {
			o := opSpec{ch: r.Intn(nch)}
			switch x := r.Intn(100); {
			case x < 50:
				o.kind = "pub"
				o.size = r.Range(1, 5)
				if r.Chance(1, 12) {
					o.size = 0
				}
			case x < 93:
				o.kind = "hist"
				o.sinceMode = kit.Pick(r, []int{0, 0, 1, 2, 2, 2})
				o.sincePick = r.Intn(1000)
				o.limit = kit.Pick(r, []int{-1, -1, 0, 1, 2, 3})
				o.reverse = r.Chance(2, 5)
			default:
				o.kind = "rm"
			}
			scripts[g] = append(scripts[g], o)
			total++
		}
	}
	var clock atomic.Int64
	var idc atomic.Int64
	results := make([][]porcupine.Operation, G)
	epochs := make([]map[string]map[string]bool, G+1) // per goroutine: channel -> epochs seen
	errs := make([]error, G)
	startCh := make(chan struct{})
	var wg sync.WaitGroup
	// seenBy[ch] = offsets the calling goroutine has observed on that channel: they never exceed
	// the channel's top afterwards, so a since taken from them is unambiguous in both directions.
	doOp := func(g int, o opSpec, seenBy map[string][]uint64, eps map[string]map[string]bool) (porcupine.Operation, error) {
		ch := chans[o.ch]
		seen := seenBy[ch]
		defer func() { seenBy[ch] = seen }()
		in := linIn{Ch: ch, Kind: o.kind}
		var out linOut
		var err error
		note := func(ep string) {
			if eps[ch] == nil {
				eps[ch] = map[string]bool{}
			}
			eps[ch][ep] = true
		}
		switch o.kind {
		case "pub":
			in.ID = fmt.Sprintf("g%dn%d", g, idc.Add(1))
			in.Size = o.size
			opts := centrifuge.PublishOptions{HistorySize: o.size, HistoryTTL: time.Hour, HistoryMetaTTL: 2 * time.Hour}
			call := clock.Add(1)
			var res centrifuge.PublishResult
			res, err = b.Publish(ch, []byte(in.ID), opts)
			ret := clock.Add(1)
			out.Offset = res.StreamPosition.Offset
			if o.size > 0 {
				note(res.StreamPosition.Epoch)
				seen = append(seen, out.Offset)
			}
			if err == nil && res.Suppressed {
				err = fmt.Errorf("plain publish marked suppressed")
			}
			return porcupine.Operation{ClientId: g, Input: in, Call: call, Output: out, Return: ret}, err
		case "rm":
			call := clock.Add(1)
			err = b.RemoveHistory(ch)
			ret := clock.Add(1)
			return porcupine.Operation{ClientId: g, Input: in, Call: call, Output: out, Return: ret}, err
		default:
			var since *centrifuge.StreamPosition
			switch o.sinceMode {
			case 1:
				since = &centrifuge.StreamPosition{}
			case 2:
				if len(seen) > 0 {
					since = &centrifuge.StreamPosition{Offset: seen[o.sincePick%len(seen)]}
				}
			}
			if since != nil {
				in.HasSince, in.Since = true, since.Offset
			}
			in.Limit, in.Reverse = o.limit, o.reverse
			call := clock.Add(1)
			pubs, sp, e := b.History(ch, centrifuge.HistoryOptions{Filter: centrifuge.HistoryFilter{Since: since, Limit: o.limit, Reverse: o.reverse}, MetaTTL: 2 * time.Hour})
			ret := clock.Add(1)
			out.Entries, out.Top = sm.EntriesOf(pubs), sp.Offset
			note(sp.Epoch)
			seen = append(seen, sp.Offset)
			return porcupine.Operation{ClientId: g, Input: in, Call: call, Output: out, Return: ret}, e
		}
	}
	for g := 0; g < G; g++ {
		wg.Add(1)
		epochs[g] = map[string]map[string]bool{}
		go func(g int) {
			defer wg.Done()
			seen := map[string][]uint64{}
			<-startCh
			for _, o := range scripts[g] {
				op, err := doOp(g, o, seen, epochs[g])
				if err != nil {
					errs[g] = err
					return
				}
				results[g] = append(results[g], op)
			}
		}(g)
	}
	close(startCh)
	wg.Wait()
	// final full reads, after everything else, pin the final state
	var ops []porcupine.Operation
	for g := range results {
		ops = append(ops, results[g]...)
	}
	epochs[G] = map[string]map[string]bool{}
	seen := map[string][]uint64{}
	for i := range chans {
		op, err := doOp(G, opSpec{ch: i, kind: "hist", limit: -1}, seen, epochs[G])
		if err != nil {
			c.Violation("history-error", fmt.Sprintf("History returned %v", err), nil)
			return
		}
		ops = append(ops, op)
	}
	rec.Take()
	c.Eval(len(ops))
	sort.Slice(ops, func(i, j int) bool { return ops[i].Call < ops[j].Call })
	hist := make([]string, 0, len(ops))
	for _, op := range ops {
		hist = append(hist, fmt.Sprintf("[%d,%d] c%d %s", op.Call, op.Return, op.ClientId, describe(op.Input.(linIn), op.Output.(linOut))))
	}
	detail := map[string]any{"variant": "concurrent", "goroutines": G, "history": hist}
	for g, err := range errs {
		if err != nil {
			c.Violation("concurrent-operation-error", fmt.Sprintf("goroutine %d: %v", g, err), detail)
			return
		}
	}
	// epoch: one value per channel throughout (no metadata can expire here: TTLs are hours, no clock jump)
	for _, ch := range chans {
		all := map[string]bool{}
		for _, m := range epochs {
			for ep := range m[ch] {
				all[ep] = true
			}
		}
		if len(all) > 1 || all[""] {
			c.Violation("epoch-changed-without-metadata-discard", fmt.Sprintf("channel %s showed epochs %v during a run without any expiry", ch, keys(all)), detail)
			return
		}
	}
	overlap := 0
	for i := range ops {
		for j := i + 1; j < len(ops); j++ {
			if ops[j].Call > ops[i].Return {
				break
			}
			if ops[i].ClientId != ops[j].ClientId && ops[i].Input.(linIn).Ch == ops[j].Input.(linIn).Ch {
				overlap++
			}
		}
	}
	linJobs <- linJob{ops: ops, timeout: 20 * time.Second}
	res := <-linRes
	switch res {
	case porcupine.Unknown:
		c.Inconclusive(fmt.Sprintf("porcupine timed out on a history of %d operations", len(ops)))
		return
	case porcupine.Illegal:
		c.Violation("concurrent-history-not-linearizable", fmt.Sprintf("no linearization of the %d recorded Publish/History/RemoveHistory calls matches the bounded-stream model", len(ops)), detail)
		return
	}
	c.Count("porcupine_histories", 1)
	c.Count("porcupine_operations", len(ops))
	c.Count("overlapping_operation_pairs", overlap)
	ob := "0"
	switch {
	case overlap > 20:
		ob = ">20"
	case overlap > 5:
		ob = ">5"
	case overlap > 0:
		ob = ">0"
	}
	c.Nontrivial(fmt.Sprintf("conc g=%d ch=%d overlap=%s", G, nch, ob))
	if overlap > 5 {
		c.Sample(map[string]any{"variant": "concurrent", "goroutines": G, "overlapping_pairs": overlap, "history": head(hist, 30)})
	}
}

func keys(m map[string]bool) []string {
	var out []string
	for k := range m {
		out = append(out, k)
	}
	sort.Strings(out)
	return out
}

func TestC17(t *testing.T) {
	kit.Main(t, kit.Spec{
		ID:     "C17",
		Level:  "exploration",
		Bubble: true,
		// a case (8 scenarios) normally takes ~0.2 s; the real-time watchdog only has to survive an oversubscribed machine
		CaseTimeout: 10 * time.Minute,
		Rule: "every case is one testing/synctest bubble with a fresh Node (not run; Config.HistoryMetaTTL 4 s..60 s or the 30 d default) and a standalone centrifuge.NewMemoryBroker with a recording BrokerEventHandler, hosting 8 scenarios on distinct channels. " +
			"3 of 4 scenarios are sequential: 12-45 random operations over 1-3 channels - Publish (HistorySize 1-6, HistoryTTL 1-30 s, HistoryMetaTTL option 2-40 s or the Config default, 1 in 10 without history), " +
			"History (since nil / 0 / top / top+1 / beyond / around the oldest retained offset, correct / empty / foreign epoch; limit -1,0,1,2,3,len+1; reverse; MetaTTL option), RemoveHistory, and virtual-clock jumps to 1 s (or 1-2.5 s) before and after a pending TTL / meta-TTL deadline followed by a full read, plus random sleeps of 1-4000 ms - " +
			"each result compared at once with the reference bounded-stream model (offset, epoch generation, returned publications, handler call); nothing is asserted inside the open +-1 s window around a deadline (the harness sleeps past it). " +
			"1 of 4 scenarios are concurrent: 4-8 goroutines x 4-8 operations on 1-2 channels (sizes 1-5, TTL 1 h, no clock jump, since only from offsets the goroutine has already seen on that channel), call/return stamped from one atomic counter, final full reads, history checked with porcupine.CheckOperationsVerbose (partition per channel, real 20 s timeout in a goroutine outside the bubble, Unknown => inconclusive). " +
			"Non-trivial = every completed scenario; signature = which of {TTL expiry crossed, metadata expiry => new epoch, size trim, remove, read within 2 s before a deadline} occurred and the channel count, or (goroutines, channels, overlap bucket).",
		Assumptions: []string{
			"the reference model (harness/streammodel, ~60 lines) is a correct reading of the statement: offsets 1,2,3.. per stored publication; retained part = last `size` entries of the latest publish; forward since = offsets > since, reverse since = offsets < since; limit -1 all / 0 none; clear on remove or TTL keeps top and epoch; metadata discard = new epoch generation and top 0",
			"TTLs have one-second resolution (documented in PublishOptions): data / metadata are asserted present up to deadline-1s and absent from deadline+1s, deadline = last stored publish + HistoryTTL resp. last stored publish or History call + meta TTL (History refreshing the metadata expiry is how HistoryOptions.MetaTTL is documented); nothing is asserted inside the 2 s window",
			"the generator never makes a later publish/History ask for an EARLIER expiry than one still pending on the same channel (the statement does not say what shortening a TTL does; the memory broker keeps the older, later deadline - counted by the obs_shortened_ttl_* counters, not asserted)",
			"the broker ignores the epoch of HistoryFilter.Since (Node.History turns a mismatch into ErrorUnrecoverablePosition); for a foreign epoch, and for reverse reads from beyond top+1, both an empty result and the model's result are accepted",
			"a fresh metadata generation must get an epoch different from every earlier one on that channel (8 random letters: a collision is negligible)",
			"testing/synctest virtual time replaces the injectable clock the property's hook_needed field asks for; the broker's three sweep goroutines end on MemoryBroker.Close",
		},
		Cases:           map[string]int{"quick": 1600, "thorough": 24000},
		RequireCounters: []string{"ttl_expiry_crossed", "meta_expired_new_epoch", "read_within_2s_before_ttl_deadline", "trimmed_by_size", "removed_stream_keeps_position", "since_reads", "reverse_reads", "limit_cut_reads", "publish_without_history", "porcupine_histories", "overlapping_operation_pairs"},
		Setup:           startLinWorker,
		Run: func(c *kit.Case) {
			r := c.R
			// de-phase the sweep loops (started by RegisterBrokerEventHandler) from the wall-second grid
			time.Sleep(time.Duration(r.Intn(1000)) * time.Millisecond)
			defMeta := time.Duration(kit.Pick(r, []int{0, 4, 7, 12, 25, 60})) * sec
			_, b, rec, ok := newBroker(c, defMeta)
			if !ok {
				return
			}
			defer func() {
				_ = b.Close(context.Background())
				synctest.Wait()
			}()
			if defMeta == 0 {
				defMeta = 30 * 24 * time.Hour // documented default of Config.HistoryMetaTTL
			}
			for round := 0; round < scenariosPerCase && !c.Violated(); round++ {
				prefix := fmt.Sprintf("s%d", round)
				if r.Chance(1, 4) {
					runConcurrent(c, b, rec, prefix)
				} else {
					runSequential(c, b, rec, defMeta, prefix)
				}
			}
		},
	})
}
