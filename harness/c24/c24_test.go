// C24: Map key expiry removes each expired key exactly once.
package c24

import (
	"fmt"
	"sort"
	"strconv"
	"strings"
	"sync"
	"sync/atomic"
	"testing"
	"testing/synctest"
	"time"

	"github.com/centrifugal/centrifuge"
	"github.com/centrifugal/centrifuge/verifx/kit"
	mm "github.com/centrifugal/centrifuge/verifx/mapmodel"
)

const (
	maxHookSleepMs = 900
	// A key whose deadline D has passed is removed by the first sweep whose phase 1 starts at or
	// after D. Sweeps tick 1 s after the previous one finished, and the hook parks a sweep for at
	// most maxHookSleepMs between its phases: D -> (parked sweep ends) -> +1 s tick -> phase 1 ->
	// parked again -> phase 2.
	lateMarginMs = 1000 + 2*maxHookSleepMs + 300
)

var keyPool = []string{"a", "b", "k\x00z", "ключ"}

type opRec struct {
	ID      int    `json:"id"`
	T       int64  `json:"t_ms"` // virtual ms since the broker started
	Ch      string `json:"ch"`
	Key     string `json:"key"`
	Kind    string `json:"kind"` // pub | ifexists | ka (if_new+RefreshTTLOnSuppress) | ifnew (no refresh) | rm
	Where   string `json:"where"`
	Parked  bool   `json:"sweep_parked_between_phases,omitempty"`
	Res     mm.Res `json:"res"`
	abs     int64
	onCand  bool
	nearDl  int64 // distance to the believed deadline (ms), valid when Where == "deadline"
	hasNear bool
}

type winOp struct {
	OffsetMs int
	Kind     string
	Pick     int
}

type window struct {
	SleepMs int
	Ops     []winOp
}

type liveKey struct {
	deadline int64
}

type chanCfg struct {
	name string
	cfg  mm.Cfg
}

type world struct {
	c     *kit.Case
	env   *mm.Env
	t0    int64
	chans []chanCfg
	ttl   map[string]int64
	keys  []string

	mu       sync.Mutex
	ops      []opRec
	live     map[string]liveKey // ch\x00key -> believed deadline (targeting only, never an oracle input)
	cands    map[string]bool    // expiry candidates of the sweep currently parked
	windows  []window
	winLog   []map[string]any
	nextID   int
	parked   atomic.Bool
	settling atomic.Bool
	winIdx   atomic.Int64
	pending  atomic.Int64
}

func (w *world) now() int64 { return time.Now().UnixMilli() }

func lk(ch, key string) string { return ch + "\x00" + key }

// do executes one operation, records it and updates the targeting tracker.
func (w *world) do(ch, key, kind, where string, nearDl int64, hasNear bool) {
	w.mu.Lock()
	w.nextID++
	id := w.nextID
	w.mu.Unlock()
	op := mm.Op{Key: key}
	switch kind {
	case "pub":
		op.Kind, op.Data, op.Tags = "publish", fmt.Sprintf("v%d", id), map[string]string{"op": fmt.Sprint(id)}
	case "ifexists":
		op.Kind, op.Data, op.Tags, op.KeyMode = "publish", fmt.Sprintf("v%d", id), map[string]string{"op": fmt.Sprint(id)}, "if_exists"
	case "ka":
		op.Kind, op.Data, op.Tags, op.KeyMode, op.Refresh = "publish", fmt.Sprintf("v%d", id), map[string]string{"op": fmt.Sprint(id)}, "if_new", true
	case "ifnew":
		op.Kind, op.Data, op.Tags, op.KeyMode = "publish", fmt.Sprintf("v%d", id), map[string]string{"op": fmt.Sprint(id)}, "if_new"
	case "rm":
		op.Kind, op.Tags = "remove", map[string]string{"rm": fmt.Sprint(id)}
	}
	parked := w.parked.Load()
	w.mu.Lock()
	onCand := parked && w.cands[lk(ch, key)]
	w.mu.Unlock()
	t := w.now()
	res := mm.Exec(w.env.Broker, ch, op, "")
	t2 := w.now()
	if t2 != t {
		w.c.Inconclusive("virtual clock moved inside a broker call")
	}
	ttl := w.ttl[ch]
	w.mu.Lock()
	w.ops = append(w.ops, opRec{ID: id, T: t - w.t0, abs: t, Ch: ch, Key: key, Kind: kind, Where: where, Parked: parked, Res: res, onCand: onCand, nearDl: nearDl, hasNear: hasNear})
	switch {
	case res.Err != "":
	case kind == "rm" && !res.Suppressed:
		delete(w.live, lk(ch, key))
	case kind != "rm" && !res.Suppressed:
		w.live[lk(ch, key)] = liveKey{deadline: t + ttl}
	case kind == "ka" && res.Reason == "key_exists":
		w.live[lk(ch, key)] = liveKey{deadline: t + ttl}
	}
	w.mu.Unlock()
}

// hook runs in the sweep goroutine between phase 1 and phase 2 with no lock held.
func (w *world) hook(point string, n *centrifuge.Node, _ *centrifuge.Client, _ string) {
	if point != "mapexpire.betweenPhases" || n != w.env.Node {
		return
	}
	idx := int(w.winIdx.Add(1) - 1)
	if idx >= len(w.windows) {
		return
	}
	win := w.windows[idx]
	start := w.now()
	// keys the parked sweep has just collected: present (as far as the broadcasts tell) with a deadline <= now
	var cands []string
	w.mu.Lock()
	w.cands = map[string]bool{}
	for k, l := range w.live {
		if l.deadline <= start {
			cands = append(cands, k)
			w.cands[k] = true
		}
	}
	sort.Strings(cands)
	w.winLog = append(w.winLog, map[string]any{"sweep_phase1_at_ms": start - w.t0, "parked_ms": win.SleepMs, "candidates": len(cands), "ops": win.Ops})
	w.mu.Unlock()
	if len(cands) > 0 {
		w.c.Count("sweeps_parked_with_candidates", 1)
	}
	if !w.settling.Load() && len(win.Ops) > 0 {
		w.pending.Add(1)
		go func() {
			defer w.pending.Add(-1)
			for _, o := range win.Ops {
				if d := start + int64(o.OffsetMs) - w.now(); d > 0 {
					time.Sleep(time.Duration(d) * time.Millisecond)
				}
				if w.settling.Load() {
					return
				}
				var target string
				if len(cands) > 0 {
					target = cands[o.Pick%len(cands)]
				} else {
					target = lk(w.chans[o.Pick%len(w.chans)].name, w.keys[o.Pick%len(w.keys)])
				}
				i := strings.IndexByte(target, 0)
				w.do(target[:i], target[i+1:], o.Kind, "window", 0, false)
			}
		}()
	}
	if win.SleepMs > 0 {
		w.parked.Store(true)
		time.Sleep(time.Duration(win.SleepMs) * time.Millisecond)
		w.parked.Store(false)
	}
}

func tagID(tags, name string) (int, bool) {
	for _, kv := range strings.Split(tags, ";") {
		if strings.HasPrefix(kv, name+"=") {
			n, err := strconv.Atoi(kv[len(name)+1:])
			return n, err == nil
		}
	}
	return 0, false
}

// checkpoint: at a quiescent instant the state equals the fold of the broadcasts, and the stream
// of a recoverable channel is exactly the sequence of broadcasts.
func (w *world) checkpoint(fail func(cls, msg string)) bool {
	synctest.Wait()
	calls := w.env.Rec.Since(0)
	for _, cc := range w.chans {
		fold := map[string]mm.PubView{}
		var stream []mm.PubView
		var last uint64
		for _, cl := range calls {
			if cl.Ch != cc.name {
				continue
			}
			if cl.SP.Offset != cl.Pub.Offset {
				fail("broadcast-position-differs", fmt.Sprintf("handler call %+v: position differs from the publication offset", cl))
				return false
			}
			if cc.cfg.HasStream() {
				if cl.SP.Offset != last+1 {
					fail("broadcast-offsets-not-contiguous", fmt.Sprintf("handler call offset %d after %d on %s", cl.SP.Offset, last, cc.name))
					return false
				}
				last = cl.SP.Offset
				stream = append(stream, cl.Pub)
			}
			if cl.Pub.Removed {
				delete(fold, cl.Pub.Key)
			} else {
				fold[cl.Pub.Key] = cl.Pub
			}
		}
		st := mm.Exec(w.env.Broker, cc.name, mm.Op{Kind: "read_state", Limit: -1}, "")
		got := map[string]mm.PubView{}
		for _, p := range st.Pubs {
			got[p.Key] = p
		}
		if st.Err != "" || fmt.Sprint(got) != fmt.Sprint(fold) {
			fail("state-differs-from-broadcast-fold", fmt.Sprintf("at +%dms (quiescent) state of %s is %+v (err %q) but the broadcasts fold to %+v", w.now()-w.t0, cc.name, got, st.Err, fold))
			return false
		}
		if cc.cfg.HasStream() {
			sr := mm.Exec(w.env.Broker, cc.name, mm.Op{Kind: "read_stream", Limit: -1}, "")
			if sr.Err != "" || fmt.Sprint(sr.Pubs) != fmt.Sprint(stream) {
				fail("stream-differs-from-broadcasts", fmt.Sprintf("at +%dms (quiescent) stream of %s is %+v (err %q) but the broadcasts were %+v", w.now()-w.t0, cc.name, sr.Pubs, sr.Err, stream))
				return false
			}
		}
	}
	w.c.Count("quiescent_checkpoints", 1)
	return true
}

type pubInfo struct {
	id   int
	tPub int64
}

func runCase(c *kit.Case) {
	r := c.R
	w := &world{c: c, live: map[string]liveKey{}, cands: map[string]bool{}, ttl: map[string]int64{}}
	nch := r.Range(1, 2)
	byName := map[string]mm.Cfg{}
	var maxTTL int64
	for i := 0; i < nch; i++ {
		cfg := mm.Cfg{Mode: kit.Pick(r, []int{mm.ModeEphemeral, mm.ModeRecoverable, mm.ModeRecoverable}), Ordered: r.Chance(1, 4),
			KeyTTLms: kit.Pick(r, []int64{1500, 2000, 2700, 4000})}
		if cfg.HasStream() {
			cfg.StreamSize = 100000
		}
		name := fmt.Sprintf("ch%d", i)
		w.chans = append(w.chans, chanCfg{name: name, cfg: cfg})
		byName[name] = cfg
		w.ttl[name] = cfg.KeyTTLms
		maxTTL = max(maxTTL, cfg.KeyTTLms)
	}
	w.keys = append([]string(nil), keyPool[:r.Range(1, 4)]...)
	kinds := []string{"pub", "pub", "ka", "ka", "rm", "ifexists", "ifnew"}
	for i := 0; i < 48; i++ {
		win := window{}
		if !r.Chance(1, 6) {
			win.SleepMs = r.Range(1, maxHookSleepMs)
		}
		for k := r.Intn(4); k > 0; k-- {
			off := r.Range(0, win.SleepMs+120)
			if r.Chance(1, 5) {
				off = kit.Pick(r, []int{0, 1, max(win.SleepMs-1, 0), win.SleepMs, win.SleepMs + 1})
			}
			win.Ops = append(win.Ops, winOp{OffsetMs: off, Kind: kit.Pick(r, kinds), Pick: r.Intn(1 << 20)})
		}
		sort.Slice(win.Ops, func(i, j int) bool { return win.Ops[i].OffsetMs < win.Ops[j].OffsetMs })
		w.windows = append(w.windows, win)
	}

	rec := &mm.Recorder{OnRecord: func(cl mm.Call) { // an expiry removal: the key is gone (targeting tracker only)
		if _, explicit := tagID(cl.Pub.Tags, "rm"); cl.Pub.Removed && !explicit {
			w.mu.Lock()
			delete(w.live, lk(cl.Ch, cl.Pub.Key))
			w.mu.Unlock()
		}
	}}
	env, err := mm.NewEnvWith(func(ch string) centrifuge.MapChannelOptions {
		cfg, ok := byName[ch]
		if !ok {
			return centrifuge.MapChannelOptions{}
		}
		return mm.ChannelOptions(cfg, 10*time.Minute, 0)
	}, rec)
	if err != nil {
		c.Inconclusive("cannot create broker: " + err.Error())
		return
	}
	w.env = env
	synctest.Wait()
	w.t0 = w.now()
	centrifuge.VerifSetHook(w.hook)
	defer func() {
		// the hook is process-global: remove it, stop the sweeps, let a parked sweep and the
		// window goroutines run out.
		w.settling.Store(true)
		centrifuge.VerifSetHook(nil)
		env.Close()
		for i := 0; i < 20 && w.pending.Load() > 0; i++ {
			time.Sleep(500 * time.Millisecond)
		}
		time.Sleep((maxHookSleepMs + 1500) * time.Millisecond)
		synctest.Wait()
	}()

	cfgs := map[string]mm.Cfg{}
	for _, cc := range w.chans {
		cfgs[cc.name] = cc.cfg
	}
	fail := func(cls, msg string) {
		w.mu.Lock()
		ops := append([]opRec(nil), w.ops...)
		wl := append([]map[string]any(nil), w.winLog...)
		w.mu.Unlock()
		calls := env.Rec.Since(0)
		for i := range calls {
			calls[i].TimeMs -= w.t0
		}
		if len(ops) > 80 {
			ops = ops[len(ops)-80:]
		}
		if len(calls) > 80 {
			calls = calls[len(calls)-80:]
		}
		if len(wl) > 30 {
			wl = wl[len(wl)-30:]
		}
		c.Violation(cls, mm.Clean(msg), map[string]any{"channels": cfgs, "keys": w.keys, "ops_tail": ops, "handler_calls_tail": calls, "sweeps_tail": wl, "late_margin_ms": lateMarginMs})
	}

	time.Sleep(time.Duration(r.Range(1, 999)) * time.Millisecond)
	steps := r.Range(20, 55)
	for i := 0; i < steps && !c.Violated(); i++ {
		ch := kit.Pick(r, w.chans).name
		key := kit.Pick(r, w.keys)
		switch x := r.Intn(100); {
		case x < 28:
			w.do(ch, key, kit.Pick(r, []string{"pub", "pub", "pub", "ifexists"}), "main", 0, false)
		case x < 38:
			w.do(ch, key, "ka", "main", 0, false)
		case x < 45:
			w.do(ch, key, "rm", "main", 0, false)
		case x < 49:
			w.do(ch, key, "ifnew", "main", 0, false)
		case x < 76:
			// aim at a deadline: just before / at / just after it, or inside the sweep latency
			now := w.now()
			w.mu.Lock()
			var tk []string
			for k, l := range w.live {
				if l.deadline > now && l.deadline < now+5000 {
					tk = append(tk, k)
				}
			}
			sort.Strings(tk)
			var dl int64
			var k string
			if len(tk) > 0 {
				k = kit.Pick(r, tk)
				dl = w.live[k].deadline
			}
			w.mu.Unlock()
			if k == "" {
				w.do(ch, key, "pub", "main", 0, false)
				continue
			}
			delta := kit.Pick(r, []int64{-2, -1, -1, 0, 0, 1, 1, 2, -300, 150, 400, 700, 999, 1400})
			if d := dl + delta - now; d > 0 {
				time.Sleep(time.Duration(d) * time.Millisecond)
			}
			j := strings.IndexByte(k, 0)
			w.do(k[:j], k[j+1:], kit.Pick(r, []string{"ka", "ka", "pub", "rm", "ifexists", "ifnew"}), "deadline", w.now()-dl, true)
		case x < 94:
			time.Sleep(time.Duration(kit.Pick(r, []int{1, 3, 50, 200, 500, 800, 1000, 1500, 2500})) * time.Millisecond)
		default:
			if !w.checkpoint(fail) {
				return
			}
		}
	}
	if c.Violated() {
		return
	}
	// settle: no more writes; every key must expire
	w.settling.Store(true)
	time.Sleep(time.Duration(maxTTL+lateMarginMs+1500) * time.Millisecond)
	for i := 0; i < 20 && w.pending.Load() > 0; i++ {
		time.Sleep(500 * time.Millisecond)
	}
	if !w.checkpoint(fail) {
		return
	}

	w.mu.Lock()
	ops := append([]opRec(nil), w.ops...)
	w.mu.Unlock()
	calls := env.Rec.Since(0)
	sort.SliceStable(ops, func(i, j int) bool { return ops[i].abs < ops[j].abs })

	// A. every unsuppressed operation is broadcast exactly once, suppressed ones never
	nPub := map[int]int{}
	nRm := map[int]int{}
	for _, cl := range calls {
		if id, ok := tagID(cl.Pub.Tags, "rm"); ok && cl.Pub.Removed {
			nRm[id]++
		} else if id, ok := tagID(cl.Pub.Tags, "op"); ok && !cl.Pub.Removed {
			nPub[id]++
		}
	}
	opByID := map[int]opRec{}
	for _, o := range ops {
		opByID[o.ID] = o
		if o.Res.Err != "" {
			fail("unexpected-error", fmt.Sprintf("operation %+v failed", o))
			return
		}
		n := nPub[o.ID]
		if o.Kind == "rm" {
			n = nRm[o.ID]
		}
		if o.Res.Suppressed && n != 0 {
			fail("suppressed-op-broadcast", fmt.Sprintf("suppressed operation %+v was broadcast %d time(s)", o, n))
			return
		}
		if !o.Res.Suppressed && n != 1 {
			fail("unsuppressed-op-not-broadcast-once", fmt.Sprintf("unsuppressed operation %+v was broadcast %d time(s)", o, n))
			return
		}
	}

	// B/C/D. per key: removals alternate with publications; expiry removals respect the deadlines
	sig := map[string]int{}
	for _, cc := range w.chans {
		ttl := cc.cfg.KeyTTLms
		for _, key := range w.keys {
			var cur *pubInfo
			for _, cl := range calls {
				if cl.Ch != cc.name || cl.Pub.Key != key {
					continue
				}
				if !cl.Pub.Removed {
					id, _ := tagID(cl.Pub.Tags, "op")
					if cur != nil {
						if o := opByID[id]; o.onCand {
							sig["republished_while_parked"]++
						}
					}
					cur = &pubInfo{id: id, tPub: cl.TimeMs}
					continue
				}
				if cur == nil {
					fail("key-removed-twice", fmt.Sprintf("removal %+v (+%dms) broadcast for key %q of %s which is not present (already removed or expired)", cl.Pub, cl.TimeMs-w.t0, key, cc.name))
					return
				}
				if rid, explicit := tagID(cl.Pub.Tags, "rm"); explicit {
					if opByID[rid].onCand {
						c.Count("removed_between_phases", 1)
						sig["rm_parked"]++
					}
					cur = nil
					continue
				}
				// expiry removal of publication cur at tR
				tR := cl.TimeMs
				dLo := cur.tPub + ttl
				dHi := dLo
				chain := true
				timely := 0
				for _, o := range ops {
					if o.Ch != cc.name || o.Key != key || o.Kind != "ka" || o.Res.Reason != "key_exists" {
						continue
					}
					if o.abs < cur.tPub || o.abs > tR {
						continue
					}
					dHi = max(dHi, o.abs+ttl)
					if o.abs == cur.tPub || o.abs == tR {
						continue // same instant as the publish / the removal: order unknown
					}
					if chain && o.abs < dLo {
						dLo = o.abs + ttl
						timely++
						if o.onCand {
							sig["ka_parked"]++
						}
					} else {
						// Late (the deadline had passed, the sweep had not removed the key yet), but the
						// broker answered "key exists" and thereby acknowledged the refresh: the key now
						// lives until this keep-alive's own deadline. (Had the sweep won, the keep-alive
						// would have found no key and published a new one instead.)
						chain = false
						dLo = max(dLo, o.abs+ttl)
						c.Count("refreshed_after_deadline_before_sweep", 1)
						if o.onCand {
							c.Count("keepalive_acknowledged_between_phases", 1)
							sig["ka_parked_late"]++
						}
					}
				}
				if tR < cur.tPub+ttl {
					fail("key-removed-before-its-deadline", fmt.Sprintf("key %q of %s published at +%dms (op %d, TTL %dms) was removed by expiry at +%dms", key, cc.name, cur.tPub-w.t0, cur.id, ttl, tR-w.t0))
					return
				}
				if tR < dLo {
					fail("refreshed-key-removed", fmt.Sprintf("key %q of %s (op %d, published +%dms, TTL %dms) was kept alive (%d time(s) before its deadline; acknowledged late refreshes count too) -> deadline +%dms, but removed by expiry at +%dms", key, cc.name, cur.id, cur.tPub-w.t0, ttl, timely, dLo-w.t0, tR-w.t0))
					return
				}
				if tR > dHi+lateMarginMs {
					fail("expired-key-removed-too-late", fmt.Sprintf("key %q of %s: last possible deadline +%dms, removed by expiry only at +%dms (margin %dms)", key, cc.name, dHi-w.t0, tR-w.t0, lateMarginMs))
					return
				}
				if oid, ok := tagID(cl.Pub.Tags, "op"); !ok || oid != cur.id {
					c.Count("expiry_removal_with_tags_of_older_value", 1)
				}
				c.Count("expired_once", 1)
				if timely > 0 {
					c.Count("refreshed_before_deadline", 1)
					sig["refreshed"]++
				}
				if o := opByID[cur.id]; o.onCand {
					c.Count("republished_between_phases_survived_until_own_deadline", 1)
				}
				sig["expired"]++
				cur = nil
			}
			if cur != nil {
				st := mm.Exec(env.Broker, cc.name, mm.Op{Kind: "read_state", Key: key}, "")
				if len(st.Pubs) > 0 {
					fail("expired-key-not-removed", fmt.Sprintf("key %q of %s (op %d, published +%dms, TTL %dms) is still in the state at +%dms with no writes for %dms", key, cc.name, cur.id, cur.tPub-w.t0, ttl, w.now()-w.t0, maxTTL+lateMarginMs+1500))
				} else {
					fail("key-vanished-without-removal-broadcast", fmt.Sprintf("key %q of %s (op %d) left the state without any removal broadcast", key, cc.name, cur.id))
				}
				return
			}
		}
	}

	// coverage
	for _, o := range ops {
		if o.onCand {
			c.Count("op_between_phases", 1)
			c.Count("op_between_phases_"+o.Kind, 1)
		} else if o.Parked {
			c.Count("op_while_sweep_parked_other_key", 1)
		}
		if o.hasNear {
			switch {
			case o.nearDl < 0 && o.nearDl >= -2:
				c.Count("op_just_before_deadline", 1)
			case o.nearDl == 0:
				c.Count("op_at_deadline_instant", 1)
			case o.nearDl > 0 && o.nearDl <= 2:
				c.Count("op_just_after_deadline", 1)
			case o.nearDl > 2:
				c.Count("op_between_deadline_and_sweep", 1)
			}
		}
		if o.Kind == "ka" && o.Res.Reason == "key_exists" {
			c.Count("keepalive_refreshed", 1)
		}
	}
	c.Eval(len(ops))
	keys := make([]string, 0, len(sig))
	for k := range sig {
		keys = append(keys, k)
	}
	sort.Strings(keys)
	s := ""
	for _, k := range keys {
		s += fmt.Sprintf("%s=%d ", k, sig[k])
	}
	c.Nontrivial(s)
	if c.Index < 6 {
		w.mu.Lock()
		wl := append([]map[string]any(nil), w.winLog...)
		w.mu.Unlock()
		for i := range calls {
			calls[i].TimeMs -= w.t0
		}
		c.Sample(map[string]any{"channels": cfgs, "keys": w.keys, "ops_head": ops[:min(len(ops), 12)], "handler_calls_head": calls[:min(len(calls), 12)], "sweeps_head": wl[:min(len(wl), 6)], "observed": s})
	}
}

func TestC24(t *testing.T) {
	kit.Main(t, kit.Spec{
		ID:    "C24",
		Level: "exploration",
		Rule: "Each case runs a standalone MemoryMapBroker (recording handler) in a synctest bubble: 1-2 channels (ephemeral or recoverable, KeyTTL 1.5-4 s), 1-4 keys. A process-wide verif hook at \"mapexpire.betweenPhases\" parks the expiry sweep between its phase 1 (collect) and phase 2 (revalidate+delete) for a PRNG-chosen 0-900 virtual ms (48 pre-drawn windows) and starts up to 3 pre-drawn operations (publish, if_exists publish, keep-alive = if_new+RefreshTTLOnSuppress, if_new without refresh, remove) at chosen offsets inside/just after the window on keys the sweep has just collected; the main goroutine issues 20-55 steps: the same operations now, or aimed at a key's deadline (-2..+2 ms, and inside the 1 s sweep latency), sleeps, and quiescent checkpoints. After a write-free settle of maxTTL+margin everything must have expired. " +
			"Oracle from the recorded handler calls, operation results, state and stream: every unsuppressed operation broadcast exactly once and suppressed ones never; per key removals alternate with publications (no second removal); an expiry removal never comes before publish+TTL nor before the deadline extended by acknowledged keep-alives (timely ones, and late ones that still found the key), and not later than the last possible deadline + 3.1 s; at quiescent instants state == fold of broadcasts and (recoverable) stream == broadcasts with contiguous offsets; after the settle the state is empty and every publication ended exactly once. " +
			"Non-trivial = completed case; signature = counts of (expired, refreshed, keep-alive/republish/remove while parked).",
		Assumptions: []string{
			"virtual time (synctest) replaces the injectable clock; the hook sleeps with no lock held",
			"late margin = 1 s tick + 2 x 0.9 s parking + 0.3 s; a keep-alive or publish that lands after the deadline but before the sweep removed the key may or may not find the key still there (both accepted); but a keep-alive the broker answered with key_exists is an acknowledged refresh: from then on the key must live until that keep-alive's own deadline",
			"operations at exactly the same virtual millisecond as the publish or the removal they could affect are not used for the lower bound (their order is not observable)",
			"StreamTTL 10 min and the auto-derived MetaTTL are never crossed (channel metadata expiry is out of scope); StreamSize is larger than any case so stream == all broadcasts",
			"only the in-memory map broker is covered",
		},
		Cases:  map[string]int{"quick": 2000, "thorough": 20000},
		Bubble: true,
		RequireCounters: []string{"keepalive_acknowledged_between_phases", "op_between_phases", "op_between_phases_pub", "op_between_phases_ka", "op_between_phases_rm", "refreshed_before_deadline", "expired_once",
			"removed_between_phases", "republished_between_phases_survived_until_own_deadline", "op_just_before_deadline", "op_just_after_deadline", "op_between_deadline_and_sweep",
			"quiescent_checkpoints", "sweeps_parked_with_candidates"},
		Run: runCase,
	})
}
