// C37: Connection limits are enforced.
//
// Statement: "A connection never holds more client-side subscriptions than the
// channel limit (further attempts get limit-exceeded, server-side ones disconnect),
// client subscribe requests for over-long channel names are rejected, and a
// connection whose pending outgoing bytes exceed the queue limit is closed as slow."
//
// Each case builds one node (PRNG-chosen ClientChannelLimit, ChannelMaxLength,
// ClientQueueMaxSize) in a virtual-time bubble and runs several scenarios, one
// connection each. Subscription scenarios are sequences of steps (client subscribes
// with synchronous or gated asynchronous OnSubscribe callbacks, bursts of several
// commands while callbacks are pending, server-side Client.Subscribe /
// Node.Subscribe, concurrent server-side subscribes, unsubscribes, connect-time
// subscriptions); after every step the bubble is settled and the connection's
// bookkeeping is compared with a reference model of the limit rules. Queue
// scenarios fill the outgoing queue of a connection whose transport is blocked (or
// whose writer only flushes on a timer) with messages of known encoded size.
package c37

import (
	"context"
	"fmt"
	"sort"
	"strings"
	"sync"
	"testing"
	"testing/synctest"
	"time"

	"github.com/centrifugal/centrifuge"
	"github.com/centrifugal/centrifuge/verifx/kit"
	"github.com/centrifugal/centrifuge/verifx/mapcm"
	"github.com/centrifugal/protocol"
)

const (
	codeLimitExceeded = 106
	codeAlreadySub    = 105
	codeBadRequest    = 107
	discChannelLimit  = 3505
	discSlow          = 3008
	statusClosed      = 3
)

type cbPlan struct {
	gate  chan struct{} // nil: answer synchronously
	err   error
	isMap bool
}

type scn struct {
	c    *kit.Case
	w    *kit.World
	node *centrifuge.Node
	idx  int
	kind string
	user string
	L, M int
	Q    int

	proto centrifuge.ProtocolType
	conn  *kit.Conn

	mu          sync.Mutex
	plans       map[string]cbPlan
	connectSubs []string
	writeDelay  time.Duration
	writeTimer  bool
	invoked     map[string]int

	// reference model: channel -> "reserved" | "subscribed"
	entries  map[string]string
	asyncMap bool // a map subscription was authorised by an asynchronous callback
	ended    bool
	log      []string
}

func (s *scn) logf(format string, args ...any) {
	s.log = append(s.log, fmt.Sprintf(format, args...))
	s.c.Logf("scn %d: "+format, append([]any{s.idx}, args...)...)
}

func (s *scn) detail() any {
	v := centrifuge.VerifClient(s.conn.Client)
	var ents []string
	for ch, e := range v.Channels {
		ents = append(ents, fmt.Sprintf("%s(sub=%v)", ch, e.Subscribed))
	}
	sort.Strings(ents)
	closed, disc, _ := s.conn.T.Closed()
	var frames []string
	for _, f := range s.conn.T.Frames() {
		raw := string(f.Raw)
		if len(raw) > 160 {
			raw = raw[:160] + "…"
		}
		frames = append(frames, fmt.Sprintf("seq=%d %q", f.Seq, raw))
	}
	if len(frames) > 40 {
		frames = frames[len(frames)-40:]
	}
	return map[string]any{"kind": s.kind, "channel_limit": s.L, "channel_max_length": s.M, "queue_max_size": s.Q, "steps": s.log,
		"client_entries": ents, "map_subscribing": v.MapSubscribing, "model": s.modelString(), "closed": closed, "close_code": disc.Code, "written": frames}
}

func (s *scn) modelString() string {
	var xs []string
	for ch, st := range s.entries {
		xs = append(xs, ch+"="+st)
	}
	sort.Strings(xs)
	return strings.Join(xs, " ")
}

func (s *scn) subscribedModel() []string {
	var xs []string
	for ch, st := range s.entries {
		if st == "subscribed" {
			xs = append(xs, ch)
		}
	}
	sort.Strings(xs)
	return xs
}

// holdCheck is oracle (i): evaluated at every settle point.
func (s *scn) holdCheck(where string) bool {
	synctest.Wait()
	chans := s.conn.Client.Channels()
	v := centrifuge.VerifClient(s.conn.Client)
	total := len(v.Channels) + len(v.MapSubscribing)
	s.c.Count("settle_points", 1)
	if total > s.L {
		s.c.Count("entries_incl_reservations_above_limit", 1)
	}
	if len(chans) == s.L {
		s.c.Count("settle_points_at_limit", 1)
	}
	if len(chans) > s.L {
		sort.Strings(chans)
		cls := "c37-connection-holds-more-subscriptions-than-channel-limit"
		if s.asyncMap {
			cls = "c37-map-subscribes-authorised-asynchronously-exceed-channel-limit"
		}
		s.c.Violation(cls, fmt.Sprintf("%s: connection holds %d subscriptions %v with ClientChannelLimit=%d", where, len(chans), chans, s.L), s.detail())
		s.ended = true
		return false
	}
	// The model must describe the connection, otherwise the per-attempt verdicts below mean nothing.
	if closed, _, _ := s.conn.T.Closed(); !closed {
		sort.Strings(chans)
		want := s.subscribedModel()
		if strings.Join(chans, ",") != strings.Join(want, ",") {
			s.c.Inconclusive(fmt.Sprintf("c37 model diverged at %s: connection %v, model %v (steps %v)", where, chans, want, s.log))
			s.ended = true
			return false
		}
	}
	return true
}

func errCode(f kit.Frame) uint32 {
	if f.Reply != nil && f.Reply.Error != nil {
		return f.Reply.Error.Code
	}
	return 0
}

func (s *scn) chanName(i int, length int) string {
	base := fmt.Sprintf("s%d-%d-", s.idx, i)
	if length <= 0 {
		return base + "x"
	}
	if len(base) >= length {
		return base[:length]
	}
	return base + strings.Repeat("y", length-len(base))
}

// expectClosedWith verifies the disconnect of a server-side attempt over the limit.
func (s *scn) expectChannelLimitDisconnect(where string) {
	synctest.Wait()
	closed, disc, _ := s.conn.T.Closed()
	s.ended = true
	if closed && disc.Code == discSlow {
		// the subscribe pushes themselves overflowed a small queue first: not this scenario's subject
		s.c.Count("subscription_scenario_closed_as_slow", 1)
		return
	}
	if !closed {
		s.c.Violation("c37-server-side-subscribe-over-limit-does-not-disconnect",
			fmt.Sprintf("%s: a server-side subscribe found the connection at its channel limit %d but the connection is still open", where, s.L), s.detail())
		return
	}
	if disc.Code != discChannelLimit {
		s.c.Violation("c37-server-side-subscribe-over-limit-wrong-disconnect",
			fmt.Sprintf("%s: closed with %d %q instead of 3505 channel limit", where, disc.Code, disc.Reason), s.detail())
		return
	}
	s.c.Count("limit_hit_server", 1)
	if n := len(s.conn.Client.Channels()); n > s.L {
		s.c.Violation("c37-connection-holds-more-subscriptions-than-channel-limit", fmt.Sprintf("%s: %d subscriptions after the channel-limit disconnect", where, n), s.detail())
	}
}

type attempt struct {
	id    uint32
	ch    string
	plan  cbPlan
	isMap bool
	// model verdict at processing time
	want string // "toolong" | "dup" | "limit" | "limit-soft" | "reserve"
}

// clientSubscribe sends one subscribe command and classifies it with the model.
func (s *scn) clientSubscribe(ch string, plan cbPlan) *attempt {
	a := &attempt{ch: ch, plan: plan, isMap: plan.isMap}
	_, present := s.entries[ch]
	pending := 0
	for _, st := range s.entries {
		if st != "subscribed" {
			pending++
		}
	}
	switch {
	case len(ch) > s.M:
		a.want = "toolong"
	case present:
		a.want = "dup"
	case len(s.entries) >= s.L && pending == 0:
		a.want = "limit"
	case len(s.entries) >= s.L:
		a.want = "limit-soft" // the limit is reached by reservations of unfinished subscribes
	default:
		a.want = "reserve"
	}
	s.mu.Lock()
	s.plans[ch] = plan
	s.mu.Unlock()
	req := &protocol.SubscribeRequest{Channel: ch}
	if plan.isMap {
		req.Type = int32(centrifuge.SubscriptionTypeMap)
		req.Phase = centrifuge.MapPhaseState
		req.Limit = 100
	}
	a.id = s.conn.Subscribe(req)
	if a.want == "reserve" {
		switch {
		case plan.gate == nil && plan.err == nil:
			s.entries[ch] = "subscribed" // the callback ran inside the command
		case plan.gate == nil:
			// refused by the callback inside the command: nothing is held
		case plan.isMap:
			// a map subscribe reserves only after its callback ran: until then nothing is held
		default:
			s.entries[ch] = "reserved"
		}
	}
	s.logf("client subscribe %q (len %d, map=%v, gated=%v, err=%v) -> model %s", short(ch), len(ch), plan.isMap, plan.gate != nil, plan.err != nil, a.want)
	return a
}

func short(ch string) string {
	if len(ch) > 24 {
		return ch[:24] + "…"
	}
	return ch
}

// judge evaluates the reply of a finished attempt (after its callback ran).
func (s *scn) judge(a *attempt) {
	f, ok := s.conn.ReplyFor(a.id)
	if closed, _, _ := s.conn.T.Closed(); closed {
		return
	}
	if !ok {
		s.c.Inconclusive(fmt.Sprintf("c37: no reply for subscribe %q (steps %v)", a.ch, s.log))
		s.ended = true
		return
	}
	code := errCode(f)
	switch a.want {
	case "toolong":
		s.c.Count("overlong_channel_attempts", 1)
		if code == 0 {
			s.c.Violation("c37-over-long-channel-name-accepted",
				fmt.Sprintf("client subscribe for a channel name of %d bytes succeeded with ChannelMaxLength=%d", len(a.ch), s.M), s.detail())
			s.ended = true
			return
		}
		if code == codeBadRequest {
			s.c.Count("overlong_rejected_107", 1)
		} else {
			s.c.Count(fmt.Sprintf("overlong_rejected_%d", code), 1)
		}
	case "dup":
		if code == 0 {
			s.c.Inconclusive(fmt.Sprintf("c37: duplicate subscribe %q succeeded", a.ch))
			s.ended = true
		}
		s.c.Count("duplicate_subscribe_attempts", 1)
	case "limit":
		if code != codeLimitExceeded {
			s.c.Violation("c37-client-subscribe-at-limit-not-answered-with-limit-exceeded",
				fmt.Sprintf("client subscribe %q while the connection holds %d = ClientChannelLimit subscriptions got code %d instead of 106", short(a.ch), s.L, code), s.detail())
			s.ended = true
			return
		}
		s.c.Count("limit_hit_client", 1)
	case "limit-soft":
		if code == codeLimitExceeded {
			s.c.Count("limit_hit_client_by_reservations", 1)
		}
		if code == 0 {
			s.entries[a.ch] = "subscribed"
		}
	case "reserve":
		if len(a.ch) == s.M {
			s.c.Count("channel_name_exactly_max_length", 1)
		}
		if code == codeLimitExceeded && a.isMap {
			// A map subscribe reserves its channel only when its (possibly gated)
			// subscribe callback answers; by then other reservations may have filled
			// the connection. The statement does not forbid that refusal.
			s.c.Count("limit_hit_map_at_reservation_time", 1)
			delete(s.entries, a.ch)
			return
		}
		if code == codeLimitExceeded {
			s.c.Violation("c37-limit-exceeded-below-channel-limit",
				fmt.Sprintf("client subscribe %q got limit-exceeded although the connection held fewer entries than ClientChannelLimit=%d", short(a.ch), s.L), s.detail())
			s.ended = true
			return
		}
		if code == codeBadRequest && len(a.ch) <= s.M {
			s.c.Violation("c37-channel-name-within-max-length-rejected",
				fmt.Sprintf("client subscribe for a channel name of %d bytes rejected as bad request with ChannelMaxLength=%d", len(a.ch), s.M), s.detail())
			s.ended = true
			return
		}
		if (code == 0) != (a.plan.err == nil) && !a.isMap {
			s.c.Inconclusive(fmt.Sprintf("c37: subscribe %q answered with code %d, planned error %v", a.ch, code, a.plan.err))
			s.ended = true
			return
		}
		if code == 0 {
			if a.plan.gate != nil {
				s.entries[a.ch] = "subscribed"
			}
			s.c.Count("client_subscribes_ok", 1)
			if a.isMap {
				s.c.Count("map_subscribes_ok", 1)
				if a.plan.gate != nil {
					s.asyncMap = true
				}
			}
		} else if a.plan.gate != nil || a.isMap {
			delete(s.entries, a.ch)
		}
	}
}

func (s *scn) newPlan(r *kit.Rand, gated bool, isMap bool) cbPlan {
	p := cbPlan{isMap: isMap}
	if gated {
		p.gate = make(chan struct{})
	}
	if r.Chance(1, 6) {
		p.err = centrifuge.ErrorPermissionDenied
	}
	return p
}

func (s *scn) pickChannel(r *kit.Rand, n *int, allowOdd bool, isMap bool) string {
	if allowOdd {
		switch r.Intn(8) {
		case 0: // duplicate of something held
			if len(s.entries) > 0 {
				var held []string
				for ch := range s.entries {
					held = append(held, ch)
				}
				sort.Strings(held)
				return kit.Pick(r, held)
			}
		case 1, 2: // around the maximum length
			*n++
			return s.chanName(*n, s.M+kit.Pick(r, []int{-1, 0, 0, 1, 1, 2, 40}))
		}
	}
	*n++
	name := s.chanName(*n, 0)
	if isMap {
		name = "m" + name
	}
	return name
}

func (s *scn) serverSubscribe(r *kit.Rand, ch string) {
	viaNode := r.Chance(1, 3)
	atLimit := len(s.entries) >= s.L
	_, present := s.entries[ch]
	var err error
	if viaNode {
		err = s.node.Subscribe(s.user, ch)
	} else {
		err = s.conn.Client.Subscribe(ch)
	}
	s.logf("server-side subscribe %q via node=%v -> err=%v (model entries %d/%d)", short(ch), viaNode, err, len(s.entries), s.L)
	s.c.Count("server_side_subscribes", 1)
	if atLimit {
		s.expectChannelLimitDisconnect("server-side subscribe at the limit")
		return
	}
	if !present {
		s.entries[ch] = "subscribed"
	}
}

func (s *scn) runSubs() {
	r := s.c.R
	nch := 0
	// connect (possibly with connect-time server-side subscriptions)
	k := 0
	if r.Chance(1, 3) {
		k = r.Range(1, s.L+2)
	}
	for i := 0; i < k; i++ {
		nch++
		s.connectSubs = append(s.connectSubs, s.chanName(nch, 0))
	}
	s.conn.Connect(nil)
	synctest.Wait()
	if k > s.L {
		s.logf("connect with %d server-side subscriptions, limit %d", k, s.L)
		s.c.Count("connect_time_over_limit", 1)
		s.expectChannelLimitDisconnect("connect with more server-side subscriptions than the limit")
		return
	}
	for _, ch := range s.connectSubs {
		s.entries[ch] = "subscribed"
	}
	if k > 0 {
		s.logf("connect with %d server-side subscriptions", k)
		s.c.Count("connect_time_subscriptions", k)
	}
	if !s.holdCheck("after connect") {
		return
	}
	useMap := s.kind == "subs-map"
	steps := r.Range(3, 9)
	for st := 0; st < steps && !s.ended; st++ {
		switch x := r.Intn(10); {
		case x < 3: // one client subscribe, synchronous or asynchronous callback
			isMap := useMap && r.Bool()
			gated := r.Bool()
			a := s.clientSubscribe(s.pickChannel(r, &nch, true, isMap), s.newPlan(r, gated, isMap))
			synctest.Wait()
			if gated && a.want == "reserve" {
				if !s.holdCheck("subscribe callback pending") {
					return
				}
				close(a.plan.gate)
				synctest.Wait()
			}
			s.judge(a)
		case x < 6: // burst: several commands while callbacks are pending
			n := r.Range(2, s.L+3)
			var as []*attempt
			for i := 0; i < n; i++ {
				isMap := useMap && r.Chance(2, 3)
				as = append(as, s.clientSubscribe(s.pickChannel(r, &nch, true, isMap), s.newPlan(r, r.Chance(3, 4), isMap)))
			}
			s.c.Count("bursts", 1)
			synctest.Wait()
			v := centrifuge.VerifClient(s.conn.Client)
			res := 0
			for _, e := range v.Channels {
				if e.Reservation {
					res++
				}
			}
			if res > 0 {
				s.c.Count("settle_points_with_reservations", 1)
			}
			// a server-side subscribe while reservations are pending
			if r.Chance(1, 4) && !s.ended {
				nch++
				ch := s.chanName(nch, 0)
				atLimit := len(s.entries) >= s.L
				err := s.conn.Client.Subscribe(ch)
				s.logf("server-side subscribe %q during burst -> err=%v (model entries %d/%d)", ch, err, len(s.entries), s.L)
				s.c.Count("server_side_subscribes", 1)
				if atLimit {
					for _, a := range as {
						if a.plan.gate != nil {
							close(a.plan.gate)
						}
					}
					s.expectChannelLimitDisconnect("server-side subscribe while the limit is filled by pending client subscribes")
					return
				}
				s.entries[ch] = "subscribed"
			}
			order := r.Perm(len(as))
			for _, i := range order {
				if as[i].plan.gate != nil {
					close(as[i].plan.gate)
					if r.Bool() {
						synctest.Wait()
					}
				}
			}
			synctest.Wait()
			for _, a := range as {
				if s.ended {
					break
				}
				s.judge(a)
			}
		case x < 7: // one server-side subscribe
			ch := s.pickChannel(r, &nch, false, false)
			if r.Chance(1, 5) {
				ch = s.chanName(nch, s.M+5) // over-long names are only checked for client requests
			}
			s.serverSubscribe(r, ch)
		case x < 8: // concurrent server-side subscribes (and possibly a client one)
			m := r.Range(2, 4)
			withClient := r.Bool()
			before := len(s.entries)
			var chs []string
			for i := 0; i < m; i++ {
				nch++
				chs = append(chs, s.chanName(nch, 0))
			}
			start := make(chan struct{})
			var wg sync.WaitGroup
			for _, ch := range chs {
				wg.Add(1)
				go func(ch string) {
					defer wg.Done()
					<-start
					_ = s.conn.Client.Subscribe(ch)
				}(ch)
			}
			synctest.Wait()
			close(start)
			var ca *attempt
			if withClient {
				nch++
				cch := s.chanName(nch, 0)
				s.mu.Lock()
				s.plans[cch] = cbPlan{}
				s.mu.Unlock()
				ca = &attempt{ch: cch}
				ca.id = s.conn.Subscribe(&protocol.SubscribeRequest{Channel: cch})
			}
			wg.Wait()
			synctest.Wait()
			s.logf("concurrent: %d server-side subscribes, client=%v, entries before %d/%d", m, withClient, before, s.L)
			s.c.Count("concurrent_server_side_steps", 1)
			s.c.Count("server_side_subscribes", m)
			closed, disc, _ := s.conn.T.Closed()
			clientCode := uint32(0)
			clientOK := false
			if ca != nil {
				if f, ok := s.conn.ReplyFor(ca.id); ok {
					clientCode = errCode(f)
					clientOK = clientCode == 0
				}
			}
			switch {
			case before+m > s.L:
				// the server-side attempts alone do not fit
				if !closed || disc.Code != discChannelLimit {
					s.expectChannelLimitDisconnect("concurrent server-side subscribes beyond the limit")
					return
				}
				s.c.Count("limit_hit_server", 1)
				s.ended = true
			case ca != nil && before+m+1 > s.L:
				// they fit, the client one does not: it is refused or a server-side one disconnects
				if closed {
					if disc.Code != discChannelLimit {
						s.expectChannelLimitDisconnect("concurrent server-side and client subscribes beyond the limit")
						return
					}
					s.c.Count("limit_hit_server", 1)
					s.ended = true
				} else if clientCode == codeLimitExceeded {
					s.c.Count("limit_hit_client", 1)
				} else {
					s.c.Violation("c37-concurrent-subscribes-beyond-limit-neither-refused-nor-disconnected",
						fmt.Sprintf("%d held + %d server-side + 1 client subscribe exceed ClientChannelLimit=%d: client reply code %d, connection open", before, m, s.L, clientCode), s.detail())
					s.ended = true
				}
			default:
				if closed {
					s.c.Inconclusive(fmt.Sprintf("c37: connection closed with %d although %d+%d(+1) fit the limit %d", disc.Code, before, m, s.L))
					s.ended = true
				}
			}
			if n := len(s.conn.Client.Channels()); n > s.L {
				s.c.Violation("c37-connection-holds-more-subscriptions-than-channel-limit", fmt.Sprintf("concurrent subscribes: connection holds %d subscriptions with ClientChannelLimit=%d", n, s.L), s.detail())
				s.ended = true
			}
			if !s.ended {
				for _, ch := range chs {
					s.entries[ch] = "subscribed"
				}
				if clientOK {
					s.entries[ca.ch] = "subscribed"
				}
			}
		default: // unsubscribe something held
			subs := s.subscribedModel()
			if len(subs) == 0 {
				continue
			}
			ch := kit.Pick(r, subs)
			if r.Bool() {
				s.conn.Unsubscribe(ch)
			} else {
				s.conn.Client.Unsubscribe(ch)
			}
			delete(s.entries, ch)
			s.logf("unsubscribe %q", short(ch))
			s.c.Count("unsubscribes", 1)
		}
		if s.ended {
			break
		}
		if !s.holdCheck(fmt.Sprintf("after step %d", st)) {
			return
		}
	}
}

// ---------------------------------------------------------------------------------------------
// queue limit

func encodedSize(proto centrifuge.ProtocolType, rep *protocol.Reply) int {
	pt := protocol.TypeJSON
	if proto == centrifuge.ProtocolTypeProtobuf {
		pt = protocol.TypeProtobuf
	}
	b, err := protocol.GetReplyEncoder(pt).Encode(rep)
	if err != nil {
		panic(err)
	}
	return len(b)
}

func payload(proto centrifuge.ProtocolType, n int) []byte {
	if n < 8 {
		n = 8
	}
	return []byte(`{"p":"` + strings.Repeat("z", n-8) + `"}`)
}

func (s *scn) runSlow() {
	r := s.c.R
	blocked := s.kind == "slow-blocked"
	s.conn.Connect(nil)
	if s.writeTimer {
		time.Sleep(s.writeDelay + time.Millisecond)
	}
	synctest.Wait()
	if closed, _, _ := s.conn.T.Closed(); closed {
		s.c.Inconclusive("c37: connection closed right after connect in the queue scenario")
		return
	}
	base := len(s.conn.T.Frames())
	if blocked {
		// park the writer goroutine inside a transport write: from now on nothing leaves the queue
		s.conn.T.Block()
		_ = s.conn.Client.Send(payload(s.proto, 10))
		synctest.Wait()
	}
	// choose message sizes: a total around the limit
	target := s.Q + kit.Pick(r, []int{-200, -40, -3, -1, 0, 0, 1, 2, 40, 300})
	if target < 60 {
		target = 60
	}
	var sizes []int
	var kinds []string
	pending := 0
	overflowAt := -1
	rpcIDs := map[int]uint32{}
	nmsg := r.Range(1, 6)
	overhead := encodedSize(s.proto, &protocol.Reply{Push: &protocol.Push{Message: &protocol.Message{Data: payload(s.proto, 8)}}}) - 8
	for i := 0; i < nmsg; i++ {
		remaining := target - pending
		var want int
		if i == nmsg-1 {
			want = remaining
		} else {
			want = remaining / (nmsg - i)
			if want > 30 {
				want += r.Range(-10, 10)
			}
		}
		dataLen := want - overhead
		if dataLen < 8 {
			dataLen = 8
		}
		// fine-tune the last message so that the total lands exactly on the target
		data := payload(s.proto, dataLen)
		kind := "send"
		if r.Chance(1, 4) {
			kind = "rpc"
		}
		var size int
		if kind == "send" {
			size = encodedSize(s.proto, &protocol.Reply{Push: &protocol.Push{Message: &protocol.Message{Data: data}}})
			if i == nmsg-1 && size != want && want > overhead+12 {
				data = payload(s.proto, dataLen-(size-want))
				size = encodedSize(s.proto, &protocol.Reply{Push: &protocol.Push{Message: &protocol.Message{Data: data}}})
			}
		}
		if overflowAt >= 0 {
			break
		}
		if kind == "send" {
			_ = s.conn.Client.Send(data)
		} else {
			id := s.conn.NextID()
			rpcIDs[i] = id
			size = encodedSize(s.proto, &protocol.Reply{Id: id, Rpc: &protocol.RPCResult{Data: data}})
			s.mu.Lock()
			s.plans["rpc"] = cbPlan{}
			s.mu.Unlock()
			s.conn.Do(&protocol.Command{Id: id, Rpc: &protocol.RPCRequest{Method: "echo", Data: data}})
		}
		pending += size
		sizes = append(sizes, size)
		kinds = append(kinds, kind)
		if pending > s.Q && overflowAt < 0 {
			overflowAt = i
		}
	}
	s.logf("queue scenario blocked=%v timer=%v Q=%d sizes=%v kinds=%v pending=%d overflowAt=%d", blocked, s.writeTimer, s.Q, sizes, kinds, pending, overflowAt)
	s.c.Count("queue_scenarios", 1)
	if pending == s.Q {
		s.c.Count("queue_filled_exactly_to_limit", 1)
	}
	if pending == s.Q+1 {
		s.c.Count("queue_one_byte_over_limit", 1)
	}
	if blocked {
		// Client.close needs the writer's mutex, which the parked writer goroutine holds:
		// never wait on the virtual clock here, only yield, then let the write go.
		if overflowAt >= 0 {
			kit.SpinUntil(func() bool { return centrifuge.VerifClient(s.conn.Client).Status == statusClosed }, 20000)
		} else {
			kit.Yield(400)
		}
		s.conn.T.Unblock()
	}
	synctest.Wait()
	closedEarly, discEarly, _ := s.conn.T.Closed()
	if overflowAt >= 0 {
		if !closedEarly {
			s.c.Violation("c37-queue-over-limit-connection-not-closed",
				fmt.Sprintf("pending outgoing bytes %d exceed ClientQueueMaxSize=%d but the connection is still open", pending, s.Q), s.detail())
			return
		}
		if discEarly.Code != discSlow {
			s.c.Violation("c37-queue-over-limit-closed-with-other-disconnect",
				fmt.Sprintf("pending outgoing bytes %d exceed ClientQueueMaxSize=%d: closed with %d %q instead of 3008 slow", pending, s.Q, discEarly.Code, discEarly.Reason), s.detail())
			return
		}
		s.c.Count("slow_consumer_closed", 1)
		return
	}
	if closedEarly {
		if discEarly.Code == discSlow {
			s.c.Violation("c37-closed-as-slow-without-exceeding-queue-limit",
				fmt.Sprintf("pending outgoing bytes never exceeded ClientQueueMaxSize=%d (at most %d) but the connection was closed as slow", s.Q, pending), s.detail())
		} else {
			s.c.Inconclusive(fmt.Sprintf("c37: queue scenario closed with %d", discEarly.Code))
		}
		return
	}
	// let the writer flush and compare the predicted sizes with what was written
	time.Sleep(s.writeDelay + 10*time.Millisecond)
	synctest.Wait()
	frames := s.conn.T.Frames()[base:]
	if blocked && len(frames) > 0 {
		frames = frames[1:] // the parked message
	}
	if closed, disc, _ := s.conn.T.Closed(); closed {
		if disc.Code == discSlow {
			s.c.Violation("c37-closed-as-slow-without-exceeding-queue-limit",
				fmt.Sprintf("pending outgoing bytes never exceeded ClientQueueMaxSize=%d (at most %d) but the connection was closed as slow", s.Q, pending), s.detail())
		}
		return
	}
	got := 0
	for _, f := range frames {
		got += len(f.Raw)
	}
	if len(frames) != len(sizes) || got != pending {
		s.c.Inconclusive(fmt.Sprintf("c37: predicted %d bytes in %d messages, transport got %d bytes in %d messages", pending, len(sizes), got, len(frames)))
		return
	}
	s.c.Count("queue_below_limit_delivered", 1)
}

// ---------------------------------------------------------------------------------------------

const scenariosPerCase = 8

func runCase(c *kit.Case) {
	r := c.R
	w := kit.NewWorld(c)
	L := kit.Pick(r, []int{1, 2, 2, 3, 3, 5})
	M := kit.Pick(r, []int{12, 16, 24, 64})
	Q := r.Range(1000, 3000)
	// Map channels are rare on purpose: asynchronously authorised map subscribes have a
	// known way past the limit, and a child stops after 50 violations.
	useMap := r.Chance(1, 25)

	var regMu sync.Mutex
	byT := map[*kit.RecTransport]*scn{}
	lookup := func(t any) *scn {
		rt, ok := t.(*kit.RecTransport)
		if !ok {
			return nil
		}
		regMu.Lock()
		defer regMu.Unlock()
		return byT[rt]
	}
	cfg := centrifuge.Config{
		ClientChannelLimit:    L,
		ChannelMaxLength:      M,
		ClientQueueMaxSize:    Q,
		ClientStaleCloseDelay: time.Hour,
	}
	if useMap {
		cfg.Map.GetMapChannelOptions = func(ch string) centrifuge.MapChannelOptions {
			return centrifuge.MapChannelOptions{Mode: centrifuge.MapModeEphemeral, KeyTTL: time.Minute}
		}
	}
	node, _ := w.NewNode(cfg, func(n *centrifuge.Node) {
		if useMap {
			mb, err := centrifuge.NewMemoryMapBroker(n, centrifuge.MemoryMapBrokerConfig{})
			if err != nil {
				panic(err)
			}
			n.SetMapBroker(mb)
		}
		n.OnConnecting(func(_ context.Context, e centrifuge.ConnectEvent) (centrifuge.ConnectReply, error) {
			s := lookup(e.Transport)
			if s == nil {
				return centrifuge.ConnectReply{}, centrifuge.DisconnectServerError
			}
			rep := centrifuge.ConnectReply{Credentials: &centrifuge.Credentials{UserID: s.user}, WriteDelay: s.writeDelay, WriteWithTimer: s.writeTimer, MaxMessagesInFrame: -1}
			if len(s.connectSubs) > 0 {
				rep.Subscriptions = map[string]centrifuge.SubscribeOptions{}
				for _, ch := range s.connectSubs {
					rep.Subscriptions[ch] = centrifuge.SubscribeOptions{}
				}
			}
			return rep, nil
		})
		n.OnConnect(func(cl *centrifuge.Client) {
			s := lookup(cl.Transport())
			if s == nil {
				return
			}
			cl.OnSubscribe(func(e centrifuge.SubscribeEvent, cb centrifuge.SubscribeCallback) {
				s.mu.Lock()
				plan := s.plans[e.Channel]
				s.invoked[e.Channel]++
				s.mu.Unlock()
				rep := centrifuge.SubscribeReply{Options: centrifuge.SubscribeOptions{Type: e.Type}}
				if plan.gate == nil {
					cb(rep, plan.err)
					return
				}
				go func() {
					<-plan.gate
					cb(rep, plan.err)
				}()
			})
			cl.OnRPC(func(e centrifuge.RPCEvent, cb centrifuge.RPCCallback) {
				cb(centrifuge.RPCReply{Data: e.Data}, nil)
			})
		})
	})

	kinds := []string{"subs", "subs", "subs", "subs", "slow-blocked", "slow-timer", "slow-timer"}
	mapAt := -1
	if useMap {
		mapAt = r.Intn(scenariosPerCase)
	}
	for i := 0; i < scenariosPerCase; i++ {
		s := &scn{c: c, w: w, node: node, idx: i, L: L, M: M, Q: Q, user: fmt.Sprintf("u%d", i), plans: map[string]cbPlan{}, invoked: map[string]int{}, entries: map[string]string{}}
		s.kind = kit.Pick(r, kinds)
		if i == mapAt {
			s.kind = "subs-map"
		}
		s.proto = kit.Pick(r, []centrifuge.ProtocolType{centrifuge.ProtocolTypeJSON, centrifuge.ProtocolTypeProtobuf})
		if s.kind == "slow-timer" {
			s.writeDelay, s.writeTimer = time.Duration(r.Range(50, 500))*time.Millisecond, true
		}
		s.conn = w.NewConn(node, kit.TransportOpts{Protocol: s.proto, PingPong: centrifuge.PingPongConfig{PingInterval: -1, PongTimeout: -1}})
		regMu.Lock()
		byT[s.conn.T] = s
		regMu.Unlock()
		if strings.HasPrefix(s.kind, "subs") {
			s.runSubs()
		} else {
			s.runSlow()
		}
		c.Eval(1)
		c.Count("scenario_"+s.kind, 1)
		closed, disc, _ := s.conn.T.Closed()
		c.Nontrivial(fmt.Sprintf("%s|L%d|%s|closed=%v:%d|steps=%d|held=%d", s.kind, L, s.proto, closed, disc.Code, len(s.log), len(s.entries)))
		if c.Index < 24 && i < 2 {
			c.Sample(map[string]any{"kind": s.kind, "channel_limit": L, "channel_max_length": M, "queue_max_size": Q, "steps": s.log, "closed": closed, "close_code": disc.Code})
		}
		// release anything still gated, then close
		s.mu.Lock()
		for _, p := range s.plans {
			if p.gate != nil {
				select {
				case <-p.gate:
				default:
					close(p.gate)
				}
			}
		}
		s.mu.Unlock()
		s.conn.T.Unblock()
		synctest.Wait()
		_ = s.conn.CloseFn()
		synctest.Wait()
	}
	if c.Index%3 == 1 && !c.Violated() {
		mapLoadingScenario(c, w)
	}
	w.Shutdown()
}

// mapLoadingScenario: 1-2 paginated map subscribes of one connection are held between their first and
// second state page (they are "loading": not yet subscriptions, but on their way), regular subscribes
// fill the rest of the channel limit and then go beyond it, then the map subscribes finish and go live.
// Whoever is refused, the connection must never end up holding more subscriptions than the limit, and
// nobody may be refused while subscriptions plus loading map subscribes are below it.
func mapLoadingScenario(c *kit.Case, w *kit.World) {
	r := c.R
	L := kit.Pick(r, []int{1, 2, 2, 3, 5})
	node, _ := w.NewNode(centrifuge.Config{
		ClientChannelLimit:    L,
		ClientStaleCloseDelay: time.Hour,
		Map: centrifuge.MapConfig{GetMapChannelOptions: func(string) centrifuge.MapChannelOptions {
			return centrifuge.MapChannelOptions{Mode: centrifuge.MapModeEphemeral, KeyTTL: time.Minute, MinPageSize: 1, DefaultPageSize: 1, MaxPageSize: 100}
		}},
	}, func(n *centrifuge.Node) {
		mb, err := centrifuge.NewMemoryMapBroker(n, centrifuge.MemoryMapBrokerConfig{})
		if err != nil {
			panic(err)
		}
		n.SetMapBroker(mb)
		n.OnConnecting(func(context.Context, centrifuge.ConnectEvent) (centrifuge.ConnectReply, error) {
			return kit.Creds("ml"), nil
		})
		n.OnConnect(func(cl *centrifuge.Client) {
			cl.OnSubscribe(func(e centrifuge.SubscribeEvent, cb centrifuge.SubscribeCallback) {
				cb(centrifuge.SubscribeReply{Options: centrifuge.SubscribeOptions{Type: e.Type}}, nil)
			})
		})
	})
	nMaps := 1
	if L >= 2 && r.Bool() {
		nMaps = 2
	}
	ctx := context.Background()
	for i := 0; i < nMaps; i++ {
		for k := 0; k < 3; k++ {
			if _, err := node.MapPublish(ctx, fmt.Sprintf("ml:m%d", i), fmt.Sprintf("k%d", k), centrifuge.MapPublishOptions{Data: []byte(`{}`)}); err != nil {
				c.Inconclusive("map loading scenario: MapPublish: " + err.Error())
				return
			}
		}
	}
	conn := w.NewConn(node, kit.TransportOpts{Protocol: kit.Pick(r, []centrifuge.ProtocolType{centrifuge.ProtocolTypeJSON, centrifuge.ProtocolTypeProtobuf})})
	conn.Connect(nil)
	w.Settle()
	maps := make([]*mapcm.Client, nMaps)
	var wg sync.WaitGroup
	for i := range maps {
		m := mapcm.New(conn, fmt.Sprintf("ml:m%d", i), 1)
		hold := time.Duration(100+10*i) * time.Millisecond
		m.StepDelay = func(step int) time.Duration {
			if step == 1 {
				return hold // between the first and the second state page
			}
			return 0
		}
		maps[i] = m
		wg.Add(1)
		go func() { defer wg.Done(); m.Subscribe() }()
	}
	time.Sleep(50 * time.Millisecond)
	// every map subscribe has had its first state page by now and sleeps before the second one
	// (the model clients are read only after their goroutines have finished)
	loading := nMaps
	room := L - loading
	nReg := room + r.Range(1, 2)
	var steps []string
	refusedBelow := -1
	for j := 0; j < nReg; j++ {
		id := conn.Subscribe(&protocol.SubscribeRequest{Channel: fmt.Sprintf("ml:r%d", j)})
		f, ok := conn.PollReply(id, 5*time.Second)
		code := uint32(0)
		if ok && f.Reply.Error != nil {
			code = f.Reply.Error.Code
		}
		steps = append(steps, fmt.Sprintf("regular subscribe #%d with %d map subscribe(s) loading -> replied=%v error=%d", j, loading, ok, code))
		if code == codeLimitExceeded {
			c.Count("regular_subscribe_refused_while_map_subscribes_load", 1)
			if j < room && refusedBelow < 0 {
				refusedBelow = j
			}
		}
	}
	wg.Wait()
	w.Settle()
	live := 0
	for _, m := range maps {
		steps = append(steps, fmt.Sprintf("map %s: live=%v ended=%q steps=%v", m.Channel, m.Live, m.Ended, m.Steps))
		if m.Live {
			live++
		} else if m.ErrCode == codeLimitExceeded {
			c.Count("map_subscribe_refused_at_go_live", 1)
		}
	}
	held := conn.Client.Channels()
	detail := map[string]any{"channel_limit": L, "steps": steps, "channels_held": held}
	c.Eval(1)
	c.Count("scenario_map-loading", 1)
	c.Count("map_subscribes_held_between_state_pages", loading)
	switch {
	case len(held) > L:
		c.Violation("c37-connection-holds-more-subscriptions-than-channel-limit", fmt.Sprintf("map subscribes loading while regular subscribes fill the limit: the connection ends up holding %d subscriptions with ClientChannelLimit=%d", len(held), L), detail)
	case refusedBelow >= 0:
		c.Violation("c37-limit-exceeded-below-channel-limit", fmt.Sprintf("regular subscribe #%d was refused with limit-exceeded while the connection held %d subscriptions and %d loading map subscribes (limit %d)", refusedBelow, refusedBelow, loading, L), detail)
	}
	c.Nontrivial(fmt.Sprintf("map-loading|L%d|maps%d|live%d|held%d", L, nMaps, live, len(held)))
	_ = conn.CloseFn()
	synctest.Wait()
}

func TestC37(t *testing.T) {
	kit.Main(t, kit.Spec{
		ID:     "C37",
		Level:  "exploration",
		Bubble: true,
		Rule: "each case = one node (ClientChannelLimit in {1,2,3,5}, ChannelMaxLength in {12,16,24,64}, ClientQueueMaxSize 1000..3000) in a virtual-time bubble and 8 scenarios, one connection each (JSON or Protobuf; one evaluation per scenario). " +
			"Subscription scenarios: connect with 0..limit+2 connect-time server-side subscriptions, then 3-9 steps out of {one client subscribe with a synchronous or gated asynchronous OnSubscribe callback; a burst of 2..limit+3 subscribe commands " +
			"(new, duplicate, names of length max-1/max/max+1/max+2/max+40) whose callbacks are released in permuted order, optionally with a server-side subscribe while they are pending; Client.Subscribe / Node.Subscribe; 2-4 concurrent Client.Subscribe goroutines with or without a " +
			"concurrent client command; client or server-side unsubscribe}; rarely map-type subscribes (ephemeral map channels). Every third case adds a map-loading scenario on a second node: 1-2 paginated map subscribes of one connection are held between their first and second state page while regular subscribes fill the channel limit and go 1-2 beyond it, then the map subscribes finish; whoever is refused, the connection must not end up above the limit and nothing may be refused below it. After every step the bubble is settled (synctest.Wait) and the connection is compared with a reference model: " +
			"Client.Channels() never larger than the limit (VerifClient view: reservations counted separately); a new valid channel at a full connection gets error 106, below the limit never 106; a server-side subscribe at a full connection (also when filled by pending reservations, also at connect time) closes with 3505; " +
			"a client subscribe whose name is longer than ChannelMaxLength gets an error reply and no subscription, a name of exactly the maximum is accepted. " +
			"Queue scenarios: the writer is parked inside a blocked transport write (RecTransport.Block) or only flushes on a timer (WriteDelay+WriteWithTimer); 1-6 messages (Client.Send pushes, RPC replies) whose encoded sizes sum to limit-200..limit+300 (incl. exactly limit and limit+1) are queued at one instant: " +
			"pending bytes > ClientQueueMaxSize must close with 3008, pending <= limit must not close as slow and everything is delivered with the predicted sizes. Non-trivial = every scenario; signature = kind x limit x protocol x close code x steps x held.",
		Assumptions: []string{
			"'holds' is measured as committed subscriptions (Client.Channels()); in-flight reservations are reported by counters only",
			"all subscriptions of the connection count towards the limit (the server counts client- and server-side ones together)",
			"at a connection that is full only because of unfinished subscribes, a further client attempt may get 106 or succeed later: not judged",
			"duplicate subscribes at the limit may get 105 or 106; over-long names at the limit may get 107 or 106",
			"pending outgoing bytes = sum of the encoded message sizes in the connection's queue (the message being written is not pending); sizes are predicted with the protocol package's reply encoder and cross-checked against delivered frames",
			"a spurious limit-exceeded below the limit, a rejected name of at most the maximum length and a slow close without overflow are reported as violations of 'the limits are enforced' although the statement only spells out the other direction",
		},
		Cases: map[string]int{"quick": 1200, "thorough": 14000},
		RequireCounters: []string{"scenario_map-loading", "regular_subscribe_refused_while_map_subscribes_load", "limit_hit_client", "limit_hit_server", "slow_consumer_closed", "queue_below_limit_delivered", "queue_filled_exactly_to_limit", "queue_one_byte_over_limit",
			"overlong_rejected_107", "channel_name_exactly_max_length", "connect_time_over_limit", "connect_time_subscriptions", "bursts", "settle_points_with_reservations", "settle_points_at_limit",
			"concurrent_server_side_steps", "limit_hit_client_by_reservations", "scenario_slow-blocked", "scenario_slow-timer", "scenario_subs", "unsubscribes", "client_subscribes_ok"},
		Run: runCase,
	})
}
