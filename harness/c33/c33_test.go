// C33: Redis PUB/SUB payload framing round-trips and parsing is total.
package c33

import (
	"bytes"
	"encoding/json"
	"fmt"
	"runtime/debug"
	"strconv"
	"strings"
	"sync"
	"testing"
	"time"

	"github.com/centrifugal/centrifuge"
	"github.com/centrifugal/centrifuge/verifx/kit"
	"github.com/centrifugal/protocol"
)

// ---------------------------------------------------------------------------------------------
// wire-format builders, written from the documented formats:
//   plain            <protobuf>                                        (Go: publish without history)
//   positioned       "__p1:" offset ":" epoch "__" payload              (Lua add_stream / add_list)
//   delta            "__d1:" offset ":" epoch ":" #prev ":" prev ":" #payload ":" payload   (Lua, use_delta == "1")
//   join / leave     "__j__" payload / "__l__" payload                  (Go: publishJoin / publishLeave)

const (
	kindPub   = 0
	kindJoin  = 1
	kindLeave = 2
)

type frame struct {
	Form    string // plain | p1 | d1 | join | leave
	Payload []byte
	Offset  uint64
	Epoch   string
	Prev    []byte
}

func (f frame) build() []byte {
	switch f.Form {
	case "plain":
		return append([]byte{}, f.Payload...)
	case "p1":
		// payload = "__" .. "p1:" .. top_offset .. ":" .. current_epoch .. "__" .. message_payload
		var b bytes.Buffer
		b.WriteString("__p1:")
		b.WriteString(strconv.FormatUint(f.Offset, 10))
		b.WriteString(":")
		b.WriteString(f.Epoch)
		b.WriteString("__")
		b.Write(f.Payload)
		return b.Bytes()
	case "d1":
		// "__" .. "d1:" .. top_offset .. ":" .. current_epoch .. ":" .. #prev .. ":" .. prev .. ":" .. #msg .. ":" .. msg
		var b bytes.Buffer
		b.WriteString("__d1:")
		b.WriteString(strconv.FormatUint(f.Offset, 10))
		b.WriteString(":")
		b.WriteString(f.Epoch)
		b.WriteString(":")
		b.WriteString(strconv.Itoa(len(f.Prev)))
		b.WriteString(":")
		b.Write(f.Prev)
		b.WriteString(":")
		b.WriteString(strconv.Itoa(len(f.Payload)))
		b.WriteString(":")
		b.Write(f.Payload)
		return b.Bytes()
	case "join":
		return centrifuge.VerifRedisJoinFrame(f.Payload)
	case "leave":
		return centrifuge.VerifRedisLeaveFrame(f.Payload)
	}
	panic("unknown form")
}

// expected decoded tuple, written from the property statement.
func (f frame) want() (payload []byte, kind int, offset uint64, epoch string, delta bool, prev []byte) {
	switch f.Form {
	case "plain":
		return f.Payload, kindPub, 0, "", false, nil
	case "p1":
		return f.Payload, kindPub, f.Offset, f.Epoch, false, nil
	case "d1":
		return f.Payload, kindPub, f.Offset, f.Epoch, true, f.Prev
	case "join":
		return f.Payload, kindJoin, 0, "", false, nil
	default:
		return f.Payload, kindLeave, 0, "", false, nil
	}
}

// ---------------------------------------------------------------------------------------------
// calling the library with a panic fence

type decoded struct {
	payload []byte
	kind    int
	offset  uint64
	epoch   string
	delta   bool
	prev    []byte
	ok      bool
}

// panicFunc names the innermost centrifuge (non-harness) function on the panicking stack
// and its source position (file base name:line, for the evidence counters only).
func panicFunc(stack string) (string, string) {
	lines := strings.Split(stack, "\n")
	seenPanic := false
	for i, ln := range lines {
		if strings.HasPrefix(ln, "panic(") {
			seenPanic = true
			continue
		}
		if !seenPanic {
			continue
		}
		if strings.HasPrefix(ln, "github.com/centrifugal/centrifuge.") {
			fn := strings.TrimPrefix(ln, "github.com/centrifugal/centrifuge.")
			if j := strings.LastIndex(fn, "("); j > 0 { // cut the argument list, keep "(*T).method"
				fn = fn[:j]
			}
			site := ""
			if i+1 < len(lines) {
				site = strings.TrimSpace(lines[i+1])
				if j := strings.Index(site, " "); j > 0 {
					site = site[:j]
				}
				if j := strings.LastIndex(site, "/"); j >= 0 {
					site = site[j+1:]
				}
			}
			return fn, site
		}
	}
	return "unknown", ""
}

// Violations of one class are reported once per child process (with the first witness);
// every occurrence is still counted. A genuine defect must not stop the exploration.
var (
	repMu    sync.Mutex
	reported = map[string]bool{}
)

func report(c *kit.Case, class, msg string, detail any) {
	c.Count("violations_"+class, 1)
	repMu.Lock()
	seen := reported[class]
	reported[class] = true
	repMu.Unlock()
	if !seen {
		c.Violation(class, msg, detail)
	}
}

// lazyQ quotes only when the detail is marshalled (i.e. on a violation).
type lazyQ []byte

func (l lazyQ) MarshalJSON() ([]byte, error) { return json.Marshal(q(l)) }

func q(b []byte) string {
	if len(b) > 300 {
		return fmt.Sprintf("%q…(%d bytes)", b[:300], len(b))
	}
	return fmt.Sprintf("%q", b)
}

// decode runs extractPushData behind a recover fence. panicked=true means a violation was reported.
func decode(c *kit.Case, data []byte, origin string) (d decoded, panicked bool) {
	c.Eval(1)
	func() {
		defer func() {
			if r := recover(); r != nil {
				panicked = true
				fn, site := panicFunc(string(debug.Stack()))
				c.Count("panic_site_"+site, 1)
				report(c, "decode-panic-"+fn, fmt.Sprintf("%s panicked on PUB/SUB payload %s: %v", fn, q(data), r),
					map[string]any{"input": q(data), "origin": origin, "panic": fmt.Sprint(r)})
			}
		}()
		d.payload, d.kind, d.offset, d.epoch, d.delta, d.prev, d.ok = centrifuge.VerifExtractPushData(data)
	}()
	return
}

// ---------------------------------------------------------------------------------------------
// round trip through extractPushData

func checkRoundTrip(c *kit.Case, f frame) {
	data := f.build()
	keep := append([]byte{}, data...)
	d, panicked := decode(c, data, "valid "+f.Form+" frame")
	if panicked {
		return
	}
	if !bytes.Equal(data, keep) {
		report(c, "decode-mutates-input", "extractPushData modified its input", map[string]any{"form": f.Form, "frame": q(keep)})
		return
	}
	wp, wk, wo, we, wd, wprev := f.want()
	if d.ok && d.kind == wk && bytes.Equal(d.payload, wp) && d.offset == wo && d.epoch == we && d.delta == wd && bytes.Equal(d.prev, wprev) {
		c.Count("roundtrip_"+f.Form, 1)
		c.Nontrivial("rt " + f.Form + " p" + strconv.Itoa(lenBucket(len(f.Payload))) + " e" + strconv.Itoa(len(f.Epoch)) + " prev" + strconv.Itoa(lenBucket(len(f.Prev))) + " off" + strconv.Itoa(offBucket(f.Offset)))
		return
	}
	in := map[string]any{"form": f.Form, "frame": q(keep), "offset": f.Offset, "epoch": f.Epoch, "payload": q(f.Payload), "prev": q(f.Prev)}
	if !d.ok {
		report(c, "roundtrip-valid-frame-rejected", fmt.Sprintf("valid %s frame %s decoded with ok=false", f.Form, q(keep)), in)
		return
	}
	switch {
	case d.kind != wk:
		report(c, "roundtrip-kind-differs", fmt.Sprintf("%s frame decoded as kind %d, want %d", f.Form, d.kind, wk), in)
	case !bytes.Equal(d.payload, wp):
		report(c, "roundtrip-payload-differs", fmt.Sprintf("%s frame: payload %s, want %s", f.Form, q(d.payload), q(wp)), in)
	case d.offset != wo || d.epoch != we:
		report(c, "roundtrip-position-differs", fmt.Sprintf("%s frame: position (%d,%q), want (%d,%q)", f.Form, d.offset, d.epoch, wo, we), in)
	case d.delta != wd:
		report(c, "roundtrip-delta-flag-differs", fmt.Sprintf("%s frame: delta=%v, want %v", f.Form, d.delta, wd), in)
	case !bytes.Equal(d.prev, wprev):
		report(c, "roundtrip-prev-payload-differs", fmt.Sprintf("%s frame: previous payload %s, want %s", f.Form, q(d.prev), q(wprev)), in)
	}
}

func lenBucket(n int) int {
	switch {
	case n == 0:
		return 0
	case n < 8:
		return 1
	case n < 64:
		return 2
	case n < 1024:
		return 3
	case n < 65536:
		return 4
	}
	return 5
}

func offBucket(o uint64) int {
	switch {
	case o == 0:
		return 0
	case o < 1<<32:
		return 1
	case o < 1<<63:
		return 2
	case o < ^uint64(0):
		return 3
	}
	return 4
}

// ---------------------------------------------------------------------------------------------
// round trip through the complete receiving side (handleRedisClientMessage)

type capture struct {
	calls   int
	what    string
	ch      string
	pub     *centrifuge.Publication
	sp      centrifuge.StreamPosition
	delta   bool
	prevPub *centrifuge.Publication
	info    *centrifuge.ClientInfo
}

func (h *capture) HandlePublication(ch string, pub *centrifuge.Publication, sp centrifuge.StreamPosition, useDelta bool, prevPub *centrifuge.Publication) error {
	h.calls++
	h.what, h.ch, h.pub, h.sp, h.delta, h.prevPub = "pub", ch, pub, sp, useDelta, prevPub
	return nil
}
func (h *capture) HandleJoin(ch string, info *centrifuge.ClientInfo) error {
	h.calls++
	h.what, h.ch, h.info = "join", ch, info
	return nil
}
func (h *capture) HandleLeave(ch string, info *centrifuge.ClientInfo) error {
	h.calls++
	h.what, h.ch, h.info = "leave", ch, info
	return nil
}

var (
	keyerOnce    sync.Once
	keyerPlain   *centrifuge.VerifRedisKeyer
	keyerCluster *centrifuge.VerifRedisKeyer
)

func keyers() (*centrifuge.VerifRedisKeyer, *centrifuge.VerifRedisKeyer) {
	keyerOnce.Do(func() {
		var err error
		if keyerPlain, err = centrifuge.NewVerifRedisKeyer("centrifuge", 0, false, false, false); err != nil {
			panic(err)
		}
		if keyerCluster, err = centrifuge.NewVerifRedisKeyer("centrifuge", 0, false, false, true); err != nil {
			panic(err)
		}
	})
	return keyerPlain, keyerCluster
}

func randData(r *kit.Rand) []byte {
	switch r.Intn(8) {
	case 0:
		return nil
	case 1:
		return []byte(`{"input":"__"}`)
	case 2:
		return []byte("__p1:1:x__")
	case 3:
		return []byte("__d1:1:e:-1:")
	case 4:
		return fastBytes(r, r.Range(1, 2000))
	default:
		return hostileBytes(r, r.Range(1, 40))
	}
}

// hostileBytes draws from an alphabet rich in framing characters.
func hostileBytes(r *kit.Rand, n int) []byte {
	const alpha = "__::__0123456789-+pdjl1e \x00\xff{}\n"
	b := make([]byte, n)
	for i := range b {
		if r.Chance(1, 6) {
			b[i] = byte(r.Intn(256))
		} else {
			b[i] = alpha[r.Intn(len(alpha))]
		}
	}
	return b
}

// asciiHostile: framing characters only (protobuf string fields must stay valid UTF-8).
func asciiHostile(r *kit.Rand, n int) string {
	const alpha = "__::0123456789-pdjl1e {}"
	b := make([]byte, n)
	for i := range b {
		b[i] = alpha[r.Intn(len(alpha))]
	}
	return string(b)
}

func randInfo(r *kit.Rand) *protocol.ClientInfo {
	return &protocol.ClientInfo{User: asciiHostile(r, r.Intn(10)), Client: "c" + strconv.Itoa(r.Intn(1000)), ConnInfo: randData(r), ChanInfo: randData(r)}
}

func checkEndToEnd(c *kit.Case) {
	r := c.R
	plain, cluster := keyers()
	k, isCluster := plain, false
	if r.Bool() {
		k, isCluster = cluster, true
	}
	ch := "ch" + strconv.Itoa(r.Intn(100))
	chID := k.BrokerKeys(ch, "")["channel"]

	forms := []string{"plain", "plain-delta", "p1", "d1", "d1-noprev", "join", "leave"}
	form := kit.Pick(r, forms)
	offset := randOffset(r)
	if offset == 0 {
		offset = 1
	}
	epoch := randEpoch(r)
	h := &capture{}
	var data []byte
	in := map[string]any{"form": form, "cluster": isCluster, "offset": offset, "epoch": epoch}

	switch form {
	case "join", "leave":
		info := randInfo(r)
		msg, err := info.MarshalVT()
		if err != nil {
			c.Inconclusive("marshal ClientInfo: " + err.Error())
			return
		}
		if form == "join" {
			data = centrifuge.VerifRedisJoinFrame(msg)
		} else {
			data = centrifuge.VerifRedisLeaveFrame(msg)
		}
		in["frame"] = lazyQ(data)
		if !handle(c, k, h, chID, data, in) {
			return
		}
		if h.calls != 1 || h.what != form || h.ch != ch || h.info == nil {
			report(c, "e2e-join-leave-not-delivered", fmt.Sprintf("%s frame delivered as %q on %q (%d calls)", form, h.what, h.ch, h.calls), in)
			return
		}
		if h.info.UserID != info.User || h.info.ClientID != info.Client || !bytes.Equal(h.info.ConnInfo, info.ConnInfo) || !bytes.Equal(h.info.ChanInfo, info.ChanInfo) {
			report(c, "e2e-join-leave-info-differs", fmt.Sprintf("%s frame decoded to a different ClientInfo", form), in)
			return
		}
		c.Count("e2e_"+form, 1)
		return
	}

	pub := &protocol.Publication{Data: randData(r), Time: 1700000000000 + int64(r.Intn(1000))}
	if r.Bool() {
		pub.Tags = map[string]string{"k": asciiHostile(r, r.Intn(6))}
	}
	if r.Bool() {
		pub.Info = randInfo(r)
	}
	prev := &protocol.Publication{Data: append(randData(r), 'x'), Time: 1600000000000}
	wantDelta, wantPrev := false, false
	wantSP := centrifuge.StreamPosition{}
	if form == "plain-delta" {
		pub.Delta = true // at-most-once publish with UseDelta
		wantDelta = true
	}
	msg, err := pub.MarshalVT()
	if err != nil {
		c.Inconclusive("marshal Publication: " + err.Error())
		return
	}
	prevMsg, _ := prev.MarshalVT()
	switch form {
	case "plain", "plain-delta":
		data = frame{Form: "plain", Payload: msg}.build()
	case "p1":
		data = frame{Form: "p1", Payload: msg, Offset: offset, Epoch: epoch}.build()
		wantSP = centrifuge.StreamPosition{Offset: offset, Epoch: epoch}
	case "d1":
		data = frame{Form: "d1", Payload: msg, Offset: offset, Epoch: epoch, Prev: prevMsg}.build()
		wantSP = centrifuge.StreamPosition{Offset: offset, Epoch: epoch}
		wantDelta, wantPrev = true, true
	case "d1-noprev": // first publication of a stream: the Lua script sends an empty previous payload
		data = frame{Form: "d1", Payload: msg, Offset: offset, Epoch: epoch}.build()
		wantSP = centrifuge.StreamPosition{Offset: offset, Epoch: epoch}
		wantDelta = true
	}
	in["frame"] = lazyQ(data)
	if !handle(c, k, h, chID, data, in) {
		return
	}
	if h.calls != 1 || h.what != "pub" || h.ch != ch || h.pub == nil {
		report(c, "e2e-publication-not-delivered", fmt.Sprintf("%s frame delivered as %q on %q (%d calls)", form, h.what, h.ch, h.calls), in)
		return
	}
	if !bytes.Equal(h.pub.Data, pub.Data) || h.pub.Time != pub.Time || fmt.Sprint(h.pub.Tags) != fmt.Sprint(pub.Tags) || (h.pub.Info == nil) != (pub.Info == nil) {
		report(c, "e2e-publication-differs", fmt.Sprintf("%s frame decoded to a different publication", form), in)
		return
	}
	if h.sp != wantSP || h.pub.Offset != wantSP.Offset {
		report(c, "e2e-position-differs", fmt.Sprintf("%s frame: position %+v (pub offset %d), want %+v", form, h.sp, h.pub.Offset, wantSP), in)
		return
	}
	if h.delta != wantDelta {
		report(c, "e2e-delta-flag-differs", fmt.Sprintf("%s frame: delta=%v want %v", form, h.delta, wantDelta), in)
		return
	}
	if wantPrev != (h.prevPub != nil) || (wantPrev && !bytes.Equal(h.prevPub.Data, prev.Data)) {
		report(c, "e2e-prev-publication-differs", fmt.Sprintf("%s frame: previous publication differs (got %v)", form, h.prevPub != nil), in)
		return
	}
	c.Count("e2e_"+form, 1)
}

func handle(c *kit.Case, k *centrifuge.VerifRedisKeyer, h centrifuge.BrokerEventHandler, chID string, data []byte, in map[string]any) (ok bool) {
	c.Eval(1)
	var err error
	panicked := false
	func() {
		defer func() {
			if r := recover(); r != nil {
				panicked = true
				fn, site := panicFunc(string(debug.Stack()))
				c.Count("panic_site_"+site, 1)
				report(c, "decode-panic-"+fn, fmt.Sprintf("%s panicked on PUB/SUB payload %s: %v", fn, q(data), r),
					map[string]any{"input": q(data), "origin": "handleRedisClientMessage", "panic": fmt.Sprint(r)})
			}
		}()
		err = k.BrokerHandleMessage(h, chID, data)
	}()
	if panicked {
		return false
	}
	if err != nil && in != nil {
		report(c, "e2e-valid-frame-rejected", "handleRedisClientMessage rejected a valid frame: "+q([]byte(err.Error())), in)
		return false
	}
	return err == nil
}

// ---------------------------------------------------------------------------------------------
// generators

func randOffset(r *kit.Rand) uint64 {
	switch r.Intn(8) {
	case 0:
		return 0
	case 1:
		return uint64(r.Intn(10))
	case 2:
		return uint64(r.Intn(1 << 30))
	case 3:
		return 1<<63 - 1 + uint64(r.Intn(3))
	case 4:
		return ^uint64(0) - uint64(r.Intn(2))
	case 5:
		return 1 << uint(r.Intn(64))
	default:
		return r.Uint64()
	}
}

// Epochs: internal/epoch.Generate yields 8 ASCII letters; older deployments stored other
// letter/digit/dot forms (the repository's own tests use "xyz.123"). ':' and '_' cannot be
// produced by the generator, so the round trip does not demand them.
func randEpoch(r *kit.Rand) string {
	const letters = "abcdefghijklmnopqrstuvwxyzABCDEFGHIJKLMNOPQRSTUVWXYZ"
	const wide = letters + "0123456789.-"
	switch r.Intn(6) {
	case 0:
		return ""
	case 1:
		return "xyz.123"
	case 2, 3:
		b := make([]byte, 8)
		for i := range b {
			b[i] = letters[r.Intn(len(letters))]
		}
		return string(b)
	default:
		b := make([]byte, r.Range(1, 16))
		for i := range b {
			b[i] = wide[r.Intn(len(wide))]
		}
		return string(b)
	}
}

var headerLike = []string{"__", "__p1:1:e__", "__d1:1:e:1:a:1:b", "__j__", "__l__", "__p", "__d1:", "_", ":", "__p1:18446744073709551615:e__", "d1:", "p1:"}

// fastBytes fills n uniformly random bytes eight at a time.
func fastBytes(r *kit.Rand, n int) []byte {
	b := make([]byte, n)
	for i := 0; i < n; i += 8 {
		v := r.Uint64()
		for j := i; j < i+8 && j < n; j++ {
			b[j] = byte(v)
			v >>= 8
		}
	}
	return b
}

// randPayload: arbitrary bytes for the framed forms.
func randPayload(r *kit.Rand) []byte {
	switch r.Intn(10) {
	case 0:
		return nil
	case 1:
		return []byte(kit.Pick(r, headerLike))
	case 2:
		return append([]byte(kit.Pick(r, headerLike)), hostileBytes(r, r.Intn(20))...)
	case 3:
		if r.Chance(1, 3) {
			return fastBytes(r, r.Range(1000, 70000))
		}
		return fastBytes(r, r.Range(64, 1000))
	case 4:
		return r.Bytes(r.Range(1, 64))
	case 5:
		return bytes.Repeat([]byte{"_:"[r.Intn(2)]}, r.Range(1, 9))
	default:
		return hostileBytes(r, r.Range(1, 48))
	}
}

// randPlainPayload: what the broker really publishes unframed is a protobuf Publication,
// whose first byte is a field tag and therefore never '_' (0x5f = field 11, wire type 7).
// A bare payload starting with "__" is indistinguishable from a framed one by design, so
// such payloads are not part of the round trip (they are part of the totality inputs).
func randPlainPayload(r *kit.Rand) []byte {
	if r.Bool() {
		pub := &protocol.Publication{Data: randPayload(r), Time: int64(r.Intn(1 << 40))}
		if r.Bool() {
			pub.Delta = true
		}
		if r.Bool() {
			pub.Tags = map[string]string{"__": "__p1:"}
		}
		b, _ := pub.MarshalVT()
		return b
	}
	p := randPayload(r)
	for bytes.HasPrefix(p, []byte("__")) {
		p = p[1:]
	}
	return p
}

func randFrame(r *kit.Rand) frame {
	f := frame{Form: kit.Pick(r, []string{"plain", "p1", "p1", "d1", "d1", "d1", "join", "leave"})}
	switch f.Form {
	case "plain":
		f.Payload = randPlainPayload(r)
	case "p1":
		f.Payload, f.Offset, f.Epoch = randPayload(r), randOffset(r), randEpoch(r)
	case "d1":
		f.Payload, f.Offset, f.Epoch, f.Prev = randPayload(r), randOffset(r), randEpoch(r), randPayload(r)
	default:
		f.Payload = randPayload(r)
	}
	return f
}

// ---------------------------------------------------------------------------------------------
// totality

// checkTotal: any byte string ⇒ no panic, and ok=false or a well-formed tuple.
func checkTotal(c *kit.Case, data []byte, origin string) {
	keep := append([]byte{}, data...)
	d, panicked := decode(c, data, origin)
	if panicked {
		c.Count("total_panicked", 1)
		return
	}
	if !bytes.Equal(data, keep) {
		report(c, "decode-mutates-input", "extractPushData modified its input", map[string]any{"input": q(keep), "origin": origin})
		return
	}
	if !d.ok {
		c.Count("total_rejected", 1)
		c.Nontrivial("rejected " + origin)
		return
	}
	c.Count("total_accepted", 1)
	bad := ""
	switch {
	case d.kind != kindPub && d.kind != kindJoin && d.kind != kindLeave:
		bad = "unknown push kind"
	case len(d.payload)+len(d.prev) > len(keep):
		bad = "payload and previous payload longer than the input"
	case !d.delta && len(d.prev) != 0:
		bad = "previous payload without delta flag"
	case d.kind != kindPub && (d.delta || d.offset != 0 || d.epoch != ""):
		bad = "join/leave with position or delta"
	case len(d.payload) > 0 && !bytes.Contains(keep, d.payload):
		bad = "payload is not a substring of the input"
	case len(d.prev) > 0 && !bytes.Contains(keep, d.prev):
		bad = "previous payload is not a substring of the input"
	}
	if bad != "" {
		in := map[string]any{"input": q(keep), "origin": origin, "kind": d.kind, "offset": d.offset, "epoch": d.epoch, "delta": d.delta, "payload": q(d.payload), "prev": q(d.prev)}
		report(c, "decode-accepts-malformed-tuple", "ok=true with an ill-formed tuple: "+bad, in)
		return
	}
	c.Nontrivial("accepted " + origin + " k" + strconv.Itoa(d.kind) + " d" + strconv.FormatBool(d.delta))
}

var lengthFields = []string{"-1", "0", "1", "2", "-0", "+1", "01", "", " 1", "1 ", "x", "9223372036854775807", "9223372036854775808",
	"-9223372036854775808", "-9223372036854775809", "18446744073709551615", "4294967296", "-2147483649", "1e3", "0x10"}

// mutate returns a corrupted copy of a valid frame.
func mutate(r *kit.Rand, data []byte, f frame) ([]byte, string) {
	d := append([]byte{}, data...)
	switch r.Intn(7) {
	case 0: // truncation
		if len(d) == 0 {
			return d, "truncate"
		}
		return d[:r.Intn(len(d))], "truncate"
	case 1: // replace one byte
		if len(d) == 0 {
			return d, "replace"
		}
		i := pos(r, len(d))
		d[i] = hostileBytes(r, 1)[0]
		return d, "replace"
	case 2: // delete one byte
		if len(d) == 0 {
			return d, "delete"
		}
		i := pos(r, len(d))
		return append(d[:i], d[i+1:]...), "delete"
	case 3: // insert one byte
		i := pos(r, len(d)+1)
		out := append([]byte{}, d[:i]...)
		out = append(out, hostileBytes(r, 1)[0])
		return append(out, d[i:]...), "insert"
	case 4, 5: // length / number field mutation: rewrite one ':'-separated header field
		parts := bytes.SplitN(d, []byte(":"), 8)
		if len(parts) < 2 {
			return append(d, ':'), "field"
		}
		i := r.Range(1, len(parts)-1)
		var v string
		switch r.Intn(4) {
		case 0:
			v = kit.Pick(r, lengthFields)
		case 1: // off by one / few around the true lengths
			v = strconv.Itoa(len(f.Prev) + r.Range(-2, 2))
		case 2:
			v = strconv.Itoa(len(f.Payload) + r.Range(-2, 2))
		default:
			v = strconv.Itoa(len(d) - r.Intn(12))
		}
		parts[i] = []byte(v)
		return bytes.Join(parts, []byte(":")), "field"
	default: // cut the tail right after a length field's payload (exact-length inputs)
		if i := bytes.LastIndexByte(d, ':'); i > 0 {
			return d[:i-r.Intn(2)], "cut-at-separator"
		}
		return d, "cut-at-separator"
	}
}

// pos prefers the header region, where the structure lives.
func pos(r *kit.Rand, n int) int {
	if n > 24 && r.Chance(3, 4) {
		return r.Intn(24)
	}
	return r.Intn(n)
}

// grammar enumeration --------------------------------------------------------------------------

// all strings "__" t s with t in "jlpd", s over a small alphabet of framing characters, len(s)<=5.
const enumAlpha = "_:10-pdx"

func enumShort(idx int) ([]byte, bool) {
	// idx -> (t, length, digits)
	for _, t := range "jlpd" {
		n := 1
		for l := 0; l <= 5; l++ {
			if idx < n {
				s := make([]byte, l)
				v := idx
				for i := range s {
					s[i] = enumAlpha[v%len(enumAlpha)]
					v /= len(enumAlpha)
				}
				return append([]byte("__"+string(t)), s...), true
			}
			idx -= n
			n *= len(enumAlpha)
		}
	}
	return nil, false
}

const enumShortTotal = 4 * (1 + 8 + 64 + 512 + 4096 + 32768)

var (
	gO  = []string{"", "0", "1", "-1", "18446744073709551615", "18446744073709551616", "x"}
	gE  = []string{"", "e", "a:b"}
	gL  = []string{"-1", "0", "1", "2", "3", "4", "5", "9223372036854775807", "9223372036854775808", "-9223372036854775808", "x", "", "+1", "01"}
	gP  = []string{"", "a", "ab", "abc", "a:b"}
	gS  = []string{"", ":", "::"}
	gQ  = []string{"", "a", "ab", ":"}
	gHd = []string{"__d1:", "__d1", "__d", "__d2:"}
)

func enumDeltaTotal() int {
	return len(gHd) * len(gO) * len(gE) * len(gL) * len(gP) * len(gS) * len(gL) * len(gQ)
}

func enumDelta(idx int) []byte {
	pick := func(xs []string) string {
		v := xs[idx%len(xs)]
		idx /= len(xs)
		return v
	}
	hd, o, e, l1, p, s, l2, qq := pick(gHd), pick(gO), pick(gE), pick(gL), pick(gP), pick(gS), pick(gL), pick(gQ)
	return []byte(hd + o + ":" + e + ":" + l1 + ":" + p + s + l2 + ":" + qq)
}

// positioned-header grammar: "__p" X "__" rest, header pieces around the 3-byte "p1:" prefix.
var (
	gPH = []string{"", "1", "1:", "1:1", "1:1:", "1:1:e", "1::e", "1:x:e", "1:-1:e", "1:18446744073709551616:e", "1:18446744073709551615:e", "2:5:e", "x", "xx", "xxx", ":", "::", ":::"}
	gPT = []string{"", "_", "__", "__x", "__" + "__", "x"}
)

func enumPosTotal() int { return len(gPH) * len(gPT) * 3 }

func enumPos(idx int) []byte {
	h := gPH[idx%len(gPH)]
	idx /= len(gPH)
	t := gPT[idx%len(gPT)]
	idx /= len(gPT)
	lead := []string{"__p", "__", "_"}[idx%3]
	return []byte(lead + h + t)
}

// ---------------------------------------------------------------------------------------------

const (
	enumCases   = 61   // cases 0..60 enumerate the three grammars completely (prime stride: every case sees every grammar alternative)
	perCaseRand = 2000 // random inputs per later case
)

func TestC33(t *testing.T) {
	kit.Main(t, kit.Spec{
		ID:    "C33",
		Level: "exploration",
		Rule: "cases 0..60 enumerate completely three small grammars of hostile PUB/SUB payloads through extractPushData: (a) \"__\"+t+s, t in jlpd, s over the alphabet \"_:10-pdx\", len(s)<=5 (149,796 strings); " +
			"(b) delta headers hd+O:E:L1:P+S+L2:Q with numeric fields from {-1,0,..,5,MaxInt64,MaxInt64+1,MinInt64,x,'',+1,01}, offsets incl. 2^64-1 and 2^64, epochs incl. '' and 'a:b' (987,840 strings); (c) positioned headers around the 3-byte \"p1:\" prefix (324 strings). " +
			"Every later case draws 2000 inputs: 40% valid frames (plain protobuf / __p1:offset:epoch__payload / __d1:offset:epoch:len:prev:len:payload / __j__ / __l__) with payload and previous-payload bytes that are empty, header-like, rich in '_' ':' digits, or up to 70 kB random, offsets from {0, small, 2^63±1, 2^64-1, powers of two, uniform}, epochs '' / 8 letters / letters-digits-dot-dash, checked for the identical decoded tuple; " +
			"10% valid frames with real protobuf Publication/ClientInfo bodies through the complete receiving side handleRedisClientMessage with a recording BrokerEventHandler (channel, data, position, delta flag, previous publication); " +
			"50% totality inputs: random and framing-alphabet byte strings, and truncations, single-byte replace/insert/delete, numeric-field rewrites (negative, off-by-one around the true lengths, overflow) and cut-at-separator mutations of valid frames, half of them also through handleRedisClientMessage; " +
			"each behind recover(): a panic is a violation named after the panicking function, ok=true must come with a well-formed tuple (known kind, payload/prev substrings of the input, prev only with delta, no position on join/leave). " +
			"Violations of one class are reported once per child process with the first witness; all occurrences are counted in counters violations_<class>. " +
			"Non-trivial = a valid frame round-tripped (signature: form, payload/prev length bucket, epoch length, offset bucket) or a hostile input was accepted/rejected (signature: origin, kind, delta).",
		Assumptions: []string{
			"the Lua scripts broker_history_add_stream.lua / broker_history_add_list.lua cannot be executed here (no Redis): the harness builder emits the byte format read from their source (\"__p1:\"..offset..\":\"..epoch..\"__\"..payload and \"__d1:\"..offset..\":\"..epoch..\":\"..#prev..\":\"..prev..\":\"..#payload..\":\"..payload, # = byte length)",
			"Lua renders the HINCRBY offset as a plain decimal integer (true below 10^14 with Lua 5.1's %.14g number formatting; the builder uses plain decimal for all offsets up to 2^64-1)",
			"epochs contain no ':' and no '_' (internal/epoch.Generate yields 8 ASCII letters); the empty epoch is included",
			"an unframed (no-history) payload is a protobuf-encoded Publication and therefore never starts with \"__\"; bare payloads starting with \"__\" are only used as totality inputs",
			"join/leave frames are built by the accessor VerifRedisJoinFrame/VerifRedisLeaveFrame with the same expression publishJoin/publishLeave use (append(joinTypePrefix, msg...))",
			"extractPushData / handleRedisClientMessage are called exactly as the PUB/SUB worker goroutines call them, which have no recover(): a panic there terminates the process",
		},
		Cases: map[string]int{"quick": enumCases + 500, "thorough": enumCases + 12000},
		// pure CPU-bound cases: the watchdog only has to catch a genuine hang, not CPU starvation on a loaded host
		CaseTimeout:     20 * time.Minute,
		RequireCounters: []string{"roundtrip_plain", "roundtrip_p1", "roundtrip_d1", "roundtrip_join", "roundtrip_leave", "e2e_p1", "e2e_d1", "e2e_join", "total_rejected", "total_accepted", "enum_inputs", "mutated_inputs"},
		Run:             run,
		// tiny live heap, millions of short-lived strings: collect less often (harness-side only)
		Setup: func() { debug.SetGCPercent(2000) },
	})
}

func run(c *kit.Case) {
	if c.Index < enumCases {
		dT, pT := enumDeltaTotal(), enumPosTotal()
		for i := c.Index; i < enumShortTotal+dT+pT; i += enumCases {
			var data []byte
			origin := ""
			switch {
			case i < enumShortTotal:
				data, _ = enumShort(i)
				origin = "enum-short"
			case i < enumShortTotal+dT:
				data = enumDelta(i - enumShortTotal)
				origin = "enum-delta"
			default:
				data = enumPos(i - enumShortTotal - dT)
				origin = "enum-positioned"
			}
			c.Count("enum_inputs", 1)
			checkTotal(c, data, origin)
		}
		if c.Index == 0 {
			c.Sample(map[string]any{"kind": "enumerated hostile inputs", "examples": []string{q(enumDelta(12345)), q(enumPos(17)), "\"__p_:__\""}})
		}
		return
	}
	r := c.R
	plain, _ := keyers()
	chID := plain.BrokerKeys("ch", "")["channel"]
	for n := 0; n < perCaseRand; n++ {
		switch x := r.Intn(10); {
		case x < 4:
			f := randFrame(r)
			checkRoundTrip(c, f)
			if n < 40 && c.Index == enumCases && len(f.Payload) < 40 && len(f.Prev) < 40 && f.Form != "plain" {
				c.Sample(map[string]any{"kind": "round trip", "form": f.Form, "frame": q(f.build()), "offset": f.Offset, "epoch": f.Epoch})
			}
		case x == 4:
			checkEndToEnd(c)
		default:
			var data []byte
			origin := ""
			switch r.Intn(5) {
			case 0:
				data, origin = r.Bytes(r.Intn(64)), "random-bytes"
			case 1:
				data, origin = append([]byte("__"+string("jlpd"[r.Intn(4)])), hostileBytes(r, r.Intn(40))...), "random-framed"
			default:
				f := randFrame(r)
				if len(f.Payload) > 200 {
					f.Payload = f.Payload[:r.Intn(200)]
				}
				if len(f.Prev) > 200 {
					f.Prev = f.Prev[:r.Intn(200)]
				}
				var how string
				data, how = mutate(r, f.build(), f)
				origin = "mutated-" + f.Form + "-" + how
				c.Count("mutated_inputs", 1)
			}
			checkTotal(c, data, origin)
			if r.Bool() {
				// the same hostile input through the complete receiving side
				handle(c, plain, &capture{}, chID, append([]byte{}, data...), nil)
			}
		}
	}
}
