// C31: WebSocket close codes and handshake follow the RFC.
//
// (a) handshake grid through the real Upgrader and the real
// centrifuge.WebsocketHandler behind a real http.Server on an in-memory listener;
// (b) Client.Disconnect(code, reason) through WebsocketHandler must produce a close
// frame with that code and reason whenever it fits a control frame, and the recorded
// outgoing close code (metric) is that code; (c) received close frames: forbidden
// codes / invalid UTF-8 reasons are rejected with a protocol error, and
// Conn.CloseCode() reports the first close frame observed.
package c31

import (
	"bufio"
	"context"
	"encoding/base64"
	"encoding/binary"
	"errors"
	"fmt"
	"log"
	"net"
	"net/http"
	"regexp"
	"runtime"
	"runtime/debug"
	"strings"
	"sync"
	"sync/atomic"
	"testing"
	"time"
	"unicode/utf8"

	"github.com/centrifugal/centrifuge"
	"github.com/centrifugal/centrifuge/internal/websocket"
	"github.com/centrifugal/centrifuge/verifx/kit"
	"github.com/centrifugal/centrifuge/verifx/wsmodel"
	"github.com/prometheus/client_golang/prometheus"
)

const bound = 3 * time.Minute // hang guard for every wait; reaching it is INCONCLUSIVE, never a verdict

// ---------------------------------------------------------------------------------------------
// environment: one http.Server + node per case

type upConfig struct {
	Subprotocols []string
	Compression  bool
}

type upResult struct {
	conn  *websocket.Conn
	sub   string
	err   error
	panic any
	stack string
}

type env struct {
	ln      *wsmodel.Listener
	srv     *http.Server
	node    *centrifuge.Node
	reg     *prometheus.Registry
	upCfg   atomic.Pointer[upConfig]
	upCh    chan upResult
	clients chan *centrifuge.Client
	logMu   sync.Mutex
	panics  []string // "http: panic serving" reports of the http.Server
	served  sync.Map // trial name (query parameter t) -> chan struct{} closed when the WebSocket handler finished the connection
}

// connDone is called at the yield point "websocket.connDone": the WebSocket handler has finished the
// connection whose request carried the query t=<trial name>. The handler's last act before that point
// is its update of the outgoing-close metric, so from then on a missing update is a fact, not a matter
// of waiting longer.
func (e *env) connDone(rawQuery string) {
	if t := strings.TrimPrefix(rawQuery, "t="); t != rawQuery {
		if ch, ok := e.served.LoadAndDelete(t); ok {
			close(ch.(chan struct{}))
		}
	}
}

func (e *env) Write(p []byte) (int, error) {
	if strings.Contains(string(p), "panic serving") {
		e.logMu.Lock()
		e.panics = append(e.panics, string(p))
		e.logMu.Unlock()
	}
	return len(p), nil
}

// takePanic returns (and forgets) a handler panic reported by the http.Server.
func (e *env) takePanic() string {
	e.logMu.Lock()
	defer e.logMu.Unlock()
	if len(e.panics) == 0 {
		return ""
	}
	p := e.panics[0]
	e.panics = nil
	return p
}

var reFrame = regexp.MustCompile(`centrifuge(?:/internal/websocket)?\.(\(?[*A-Za-z]+\)?\.?[A-Za-z]+)\(`)

func panicSite(report string) string {
	if m := reFrame.FindStringSubmatch(report); m != nil {
		return strings.NewReplacer("(", "", ")", "", "*", "").Replace(m[1])
	}
	return "unknown"
}

func newEnv() (*env, error) {
	e := &env{ln: wsmodel.NewListener(), upCh: make(chan upResult, 16), clients: make(chan *centrifuge.Client, 16), reg: prometheus.NewRegistry()}
	node, err := centrifuge.New(centrifuge.Config{
		LogLevel: centrifuge.LogLevelNone,
		Metrics:  centrifuge.MetricsConfig{RegistererGatherer: e.reg},
		// no server-initiated disconnects other than the ones the trials ask for, however slow the machine is
		ClientStaleCloseDelay: 6 * time.Hour,
	})
	if err != nil {
		return nil, err
	}
	node.OnConnecting(func(ctx context.Context, ev centrifuge.ConnectEvent) (centrifuge.ConnectReply, error) {
		return centrifuge.ConnectReply{Credentials: &centrifuge.Credentials{UserID: "u-" + ev.Name}}, nil
	})
	node.OnConnect(func(c *centrifuge.Client) {
		select {
		case e.clients <- c:
		default:
		}
	})
	if err := node.Run(); err != nil {
		return nil, err
	}
	e.node = node
	kit.SetHook(node, func(point string, _ *centrifuge.Client, ch string) {
		if point == "websocket.connDone" {
			e.connDone(ch)
		}
	})
	mux := http.NewServeMux()
	mux.HandleFunc("/up", func(w http.ResponseWriter, r *http.Request) {
		cfg := e.upCfg.Load()
		up := &websocket.Upgrader{Subprotocols: cfg.Subprotocols, EnableCompression: cfg.Compression}
		var res upResult
		func() {
			defer func() {
				if p := recover(); p != nil {
					res.panic = p
					res.stack = string(debug.Stack())
				}
			}()
			res.conn, res.sub, res.err = up.Upgrade(w, r, nil)
		}()
		e.upCh <- res
		if res.panic != nil {
			panic(res.panic)
		}
	})
	noPing := centrifuge.PingPongConfig{PingInterval: -1, PongTimeout: -1} // the raw client does not answer application-level pings
	mux.Handle("/connection/websocket", centrifuge.NewWebsocketHandler(node, centrifuge.WebsocketConfig{PingPongConfig: noPing}))
	mux.Handle("/connection/websocket-z", centrifuge.NewWebsocketHandler(node, centrifuge.WebsocketConfig{Compression: true, PingPongConfig: noPing}))
	e.srv = &http.Server{Handler: mux, ErrorLog: log.New(e, "", 0)}
	go func() { _ = e.srv.Serve(e.ln) }()
	return e, nil
}

func (e *env) close() {
	_ = e.srv.Close()
	_ = e.ln.Close()
	ctx, cancel := context.WithTimeout(context.Background(), bound)
	_ = e.node.Shutdown(ctx)
	cancel()
}

// ---------------------------------------------------------------------------------------------
// raw client

type rawClient struct {
	pc *wsmodel.PipeConn
	br *bufio.Reader
}

func (e *env) dial() (*rawClient, error) {
	pc, err := e.ln.Dial()
	if err != nil {
		return nil, err
	}
	_ = pc.SetReadDeadline(time.Now().Add(bound))
	return &rawClient{pc: pc, br: bufio.NewReader(pc)}, nil
}

func (rc *rawClient) send(f wsmodel.Frame, r *kit.Rand) {
	f.Masked = true
	copy(f.Key[:], r.Bytes(4))
	_, _ = rc.pc.Write(wsmodel.AppendFrame(nil, f, -1))
}

func isTimeout(err error) bool {
	var ne net.Error
	return err != nil && errors.As(err, &ne) && ne.Timeout()
}

// ---------------------------------------------------------------------------------------------
// (a) handshake grid

type opt struct {
	Label string   // stable name of the option
	Lines []string // header lines (values); nil = header absent
	Class int      // 0 valid, 1 invalid (server MUST NOT accept), 2 unspecified (either)
}

const (
	ok = iota
	bad
	either
)

var connectionOpts = []opt{
	{"connection-upgrade", []string{"Upgrade"}, ok},
	{"connection-lowercase", []string{"upgrade"}, ok},
	{"connection-uppercase", []string{"UPGRADE"}, ok},
	{"connection-list-last", []string{"keep-alive, Upgrade"}, ok},
	{"connection-list-first", []string{"Upgrade, keep-alive"}, ok},
	{"connection-list-nospace", []string{"keep-alive,upgrade"}, ok},
	{"connection-list-tabs", []string{"keep-alive\t,\tUpgrade"}, ok},
	{"connection-two-lines", []string{"keep-alive", "Upgrade"}, ok},
	{"connection-missing", nil, bad},
	{"connection-keep-alive", []string{"keep-alive"}, bad},
	{"connection-close", []string{"close"}, bad},
	{"connection-upgradex", []string{"Upgradex"}, bad},
	{"connection-xupgrade", []string{"xUpgrade, keep-alive"}, bad},
	{"connection-split-word", []string{"Up grade"}, bad},
	{"connection-empty-element", []string{", Upgrade"}, either},
	{"connection-trailing-comma", []string{"Upgrade,"}, either},
}

var upgradeOpts = []opt{
	{"upgrade-websocket", []string{"websocket"}, ok},
	{"upgrade-mixed-case", []string{"WebSocket"}, ok},
	{"upgrade-uppercase", []string{"WEBSOCKET"}, ok},
	{"upgrade-list-last", []string{"h2c, websocket"}, ok},
	{"upgrade-list-first", []string{"websocket, foo"}, ok},
	{"upgrade-two-lines", []string{"foo", "websocket"}, ok},
	{"upgrade-missing", nil, bad},
	{"upgrade-websockets", []string{"websockets"}, bad},
	{"upgrade-split-word", []string{"web socket"}, bad},
	{"upgrade-h2c", []string{"h2c"}, bad},
	{"upgrade-xwebsocket", []string{"xwebsocket"}, bad},
	{"upgrade-with-version", []string{"websocket/13"}, either},
	{"upgrade-empty-element", []string{", websocket"}, either},
}

var versionOpts = []opt{
	{"version-13", []string{"13"}, ok},
	{"version-missing", nil, bad},
	{"version-8", []string{"8"}, bad},
	{"version-12", []string{"12"}, bad},
	{"version-14", []string{"14"}, bad},
	{"version-1", []string{"1"}, bad},
	{"version-130", []string{"130"}, bad},
	{"version-0", []string{"0"}, bad},
	{"version-13x", []string{"13x"}, bad},
	{"version-x13", []string{"x13"}, bad},
	{"version-013", []string{"013"}, bad},
	{"version-13.0", []string{"13.0"}, bad},
	{"version-list-13-8", []string{"13, 8"}, either},
	{"version-list-8-13", []string{"8, 13"}, either},
	{"version-two-lines", []string{"8", "13"}, either},
}

type originOpt struct {
	Label string
	Make  func(host string) []string
	Class int
}

var originOpts = []originOpt{
	{"origin-absent", func(h string) []string { return nil }, ok},
	{"origin-same-host", func(h string) []string { return []string{"http://" + h} }, ok},
	{"origin-same-host-https", func(h string) []string { return []string{"https://" + h} }, ok},
	{"origin-same-host-other-case", func(h string) []string { return []string{"http://" + strings.ToUpper(h)} }, ok},
	{"origin-other-host", func(h string) []string { return []string{"http://evil.test"} }, bad},
	{"origin-host-as-prefix", func(h string) []string { return []string{"http://" + h + ".evil.test"} }, bad},
	{"origin-host-as-suffix", func(h string) []string { return []string{"http://evil-" + h} }, bad},
	{"origin-other-port", func(h string) []string { return []string{"http://" + strings.Split(h, ":")[0] + ":81"} }, bad},
	{"origin-null", func(h string) []string { return []string{"null"} }, bad},
	{"origin-host-in-path", func(h string) []string { return []string{"http://evil.test/" + h} }, bad},
	{"origin-userinfo-trick", func(h string) []string { return []string{"http://" + h + "@evil.test"} }, bad},
}

type keyOpt struct {
	Label string
	Make  func(r *kit.Rand) []string
	Class int
}

func b64(n int, r *kit.Rand) string { return base64.StdEncoding.EncodeToString(r.Bytes(n)) }

var keyOpts = []keyOpt{
	{"key-random-16", func(r *kit.Rand) []string { return []string{b64(16, r)} }, ok},
	{"key-zero-16", func(r *kit.Rand) []string { return []string{"AAAAAAAAAAAAAAAAAAAAAA=="} }, ok},
	{"key-rfc-sample", func(r *kit.Rand) []string { return []string{"dGhlIHNhbXBsZSBub25jZQ=="} }, ok},
	{"key-missing", func(r *kit.Rand) []string { return nil }, bad},
	{"key-empty", func(r *kit.Rand) []string { return []string{""} }, bad},
	{"key-15-bytes", func(r *kit.Rand) []string { return []string{b64(15, r)} }, bad},
	{"key-17-bytes", func(r *kit.Rand) []string { return []string{b64(17, r)} }, bad},
	{"key-18-bytes", func(r *kit.Rand) []string { return []string{b64(18, r)} }, bad},
	{"key-20-bytes", func(r *kit.Rand) []string { return []string{b64(20, r)} }, bad},
	{"key-8-bytes", func(r *kit.Rand) []string { return []string{b64(8, r)} }, bad},
	{"key-not-base64", func(r *kit.Rand) []string { return []string{"!!!!!!!!!!!!!!!!!!!!!!=="} }, bad},
	{"key-urlsafe-alphabet", func(r *kit.Rand) []string { return []string{"-_-_-_-_-_-_-_-_-_-_-w=="} }, bad},
	{"key-unpadded", func(r *kit.Rand) []string { return []string{strings.TrimRight(b64(16, r), "=")} }, bad},
	{"key-noncanonical-bits", func(r *kit.Rand) []string { return []string{"AAAAAAAAAAAAAAAAAAAAAB=="} }, either},
	{"key-two-lines", func(r *kit.Rand) []string { return []string{b64(16, r), b64(16, r)} }, either},
}

type hsReq struct {
	Path       string      `json:"path"`
	Method     string      `json:"method"`
	Proto      string      `json:"proto"`
	Host       string      `json:"host"`
	Headers    [][2]string `json:"headers"`
	Labels     []string    `json:"labels"` // non-baseline options chosen
	Bad        []string    `json:"bad"`    // labels that make the request invalid
	Either     []string    `json:"either"` // labels with unspecified outcome
	Key        string      `json:"key"`
	Offered    []string    `json:"offered_subprotocols"`
	OfferLines int         `json:"subprotocol_header_lines"`
	OfferedExt []string    `json:"offered_extensions"`
	ExtOffer   string      `json:"extension_offer"`
	Supported  []string    `json:"supported_subprotocols"`
	Compress   bool        `json:"server_compression"`
	PreData    bool        `json:"data_before_handshake_end"`
	LowerNames bool        `json:"lowercase_header_names"`
}

func (q *hsReq) add(name string, lines []string) {
	if q.LowerNames {
		name = strings.ToLower(name)
	}
	for _, l := range lines {
		q.Headers = append(q.Headers, [2]string{name, l})
	}
}

func (q *hsReq) note(label string, class int) {
	switch class {
	case bad:
		q.Bad = append(q.Bad, label)
	case either:
		q.Either = append(q.Either, label)
	}
	q.Labels = append(q.Labels, label)
}

var subOffers = [][]string{nil, {"chat"}, {"superchat, chat"}, {"foo"}, {"foo, chat"}, {"chat,superchat"}, {"foo", "chat"}, {"CHAT"}, {"centrifuge-json"}, {"centrifuge-protobuf, centrifuge-json"}, {"foo, centrifuge-json"}}
var extOffers = []string{"", "permessage-deflate", "permessage-deflate; client_max_window_bits", "permessage-deflate; client_no_context_takeover; server_no_context_takeover", "foo, permessage-deflate", "x-webkit-deflate-frame", "permessage-deflate; server_max_window_bits=10", "foo; bar=1"}

func genHandshake(r *kit.Rand) *hsReq {
	q := &hsReq{Method: "GET", Proto: "HTTP/1.1", Host: kit.Pick(r, []string{"example.test", "example.test:8080", "Example.TEST"}), LowerNames: r.Chance(1, 6)}
	switch r.Intn(3) {
	case 0:
		q.Path = "/up"
		if r.Bool() {
			q.Supported = []string{"chat", "superchat"}
		}
		q.Compress = r.Bool()
	case 1:
		q.Path, q.Supported = "/connection/websocket", []string{"centrifuge-json", "centrifuge-protobuf"}
	default:
		q.Path, q.Supported, q.Compress = "/connection/websocket-z", []string{"centrifuge-json", "centrifuge-protobuf"}, true
	}
	// how many dimensions deviate from the baseline
	ndev := kit.Pick(r, []int{0, 1, 1, 1, 1, 2, 3})
	dims := []int{0, 1, 2, 3, 4, 5, 6}
	kit.Shuffle(r, dims)
	dev := map[int]bool{}
	for _, d := range dims[:ndev] {
		dev[d] = true
	}
	pick := func(d int, opts []opt) opt {
		if !dev[d] {
			return opts[0]
		}
		return opts[r.Range(1, len(opts)-1)]
	}
	if dev[0] {
		q.Method = kit.Pick(r, []string{"POST", "PUT", "HEAD", "OPTIONS", "DELETE", "get"})
		q.note("method-"+q.Method, bad)
	}
	if dev[1] {
		q.Proto = "HTTP/1.0"
		q.note("http-1.0", bad) // RFC 6455 4.2.1 item 1: "An HTTP/1.1 or higher GET request"
	}
	co := pick(2, connectionOpts)
	uo := pick(3, upgradeOpts)
	vo := pick(4, versionOpts)
	ko := keyOpts[0]
	if dev[5] {
		ko = keyOpts[r.Range(1, len(keyOpts)-1)]
	}
	oo := originOpts[0]
	if dev[6] {
		oo = originOpts[r.Range(1, len(originOpts)-1)]
	} else if r.Bool() {
		oo = originOpts[r.Range(1, 3)]
	}
	// header order is irrelevant: shuffle
	type hl struct {
		name  string
		lines []string
	}
	keyLines := ko.Make(r)
	if len(keyLines) > 0 {
		q.Key = strings.TrimSpace(keyLines[0])
	}
	hs := []hl{{"Connection", co.Lines}, {"Upgrade", uo.Lines}, {"Sec-WebSocket-Version", vo.Lines}, {"Sec-WebSocket-Key", keyLines}, {"Origin", oo.Make(q.Host)}}
	so := kit.Pick(r, subOffers)
	if so != nil {
		hs = append(hs, hl{"Sec-WebSocket-Protocol", so})
		q.OfferLines = len(so)
		for _, l := range so {
			for _, t := range strings.Split(l, ",") {
				q.Offered = append(q.Offered, strings.TrimSpace(t))
			}
		}
	}
	q.ExtOffer = kit.Pick(r, extOffers)
	if q.ExtOffer != "" {
		hs = append(hs, hl{"Sec-WebSocket-Extensions", []string{q.ExtOffer}})
		for _, e := range strings.Split(q.ExtOffer, ",") {
			q.OfferedExt = append(q.OfferedExt, strings.ToLower(strings.TrimSpace(strings.Split(e, ";")[0])))
		}
	}
	hs = append(hs, hl{"User-Agent", []string{"verif"}})
	kit.Shuffle(r, hs)
	for _, h := range hs {
		q.add(h.name, h.lines)
	}
	for _, o := range []struct {
		l string
		c int
		b string
	}{{co.Label, co.Class, connectionOpts[0].Label}, {uo.Label, uo.Class, upgradeOpts[0].Label}, {vo.Label, vo.Class, versionOpts[0].Label}, {ko.Label, ko.Class, keyOpts[0].Label}, {oo.Label, oo.Class, originOpts[0].Label}} {
		if o.l != o.b {
			q.note(o.l, o.c)
		}
	}
	if r.Chance(1, 25) {
		q.PreData = true
		q.note("data-before-handshake-end", either)
	}
	return q
}

func (q *hsReq) render() []byte {
	var sb strings.Builder
	fmt.Fprintf(&sb, "%s %s %s\r\n", q.Method, q.Path, q.Proto)
	hostName := "Host"
	if q.LowerNames {
		hostName = "host"
	}
	fmt.Fprintf(&sb, "%s: %s\r\n", hostName, q.Host)
	for _, h := range q.Headers {
		fmt.Fprintf(&sb, "%s: %s\r\n", h[0], h[1])
	}
	sb.WriteString("\r\n")
	return []byte(sb.String())
}

type verdict struct{ class, msg string }

func contains(xs []string, x string) bool {
	for _, y := range xs {
		if x == y {
			return true
		}
	}
	return false
}

// handshakeTrial returns a verdict (nil = fine) and whether the trial was inconclusive.
func handshakeTrial(c *kit.Case, e *env, q *hsReq) (*verdict, string) {
	e.upCfg.Store(&upConfig{Subprotocols: q.Supported, Compression: q.Compress})
	if q.Path != "/up" {
		// drain stale client notifications
		for len(e.clients) > 0 {
			<-e.clients
		}
	}
	rc, err := e.dial()
	if err != nil {
		return nil, "dial failed: " + err.Error()
	}
	defer rc.pc.Close()
	raw := q.render()
	probe := []byte("hello-" + fmt.Sprint(c.R.Intn(1000000)))
	if q.PreData {
		f := wsmodel.Frame{Fin: true, Opcode: wsmodel.OpText, Payload: probe, Masked: true}
		raw = wsmodel.AppendFrame(raw, f, -1)
	}
	_, _ = rc.pc.Write(raw)
	resp, rerr := http.ReadResponse(rc.br, &http.Request{Method: strings.ToUpper(q.Method)})
	if isTimeout(rerr) {
		return nil, "no HTTP response within the bound"
	}
	var ur *upResult
	if q.Path == "/up" && (rerr != nil || resp.StatusCode != 400 || len(e.upCh) > 0) {
		// the handler reports what Upgrade returned (the http.Server itself answers some malformed requests)
		select {
		case x := <-e.upCh:
			ur = &x
		case <-time.After(2 * time.Second):
			// request never reached the handler (rejected by net/http)
		}
	}
	if rerr != nil || (ur != nil && ur.panic != nil) {
		// a handler panic is recovered by net/http (connection dropped, stack logged)
		for i := 0; i < 200; i++ {
			if p := e.takePanic(); p != "" {
				first := p
				if j := strings.Index(first, "\n"); j > 0 {
					first = first[:j]
				}
				site := panicSite(p)
				if ur != nil && ur.stack != "" {
					site = panicSite(ur.stack)
				}
				return &verdict{"upgrade-panics@" + site, fmt.Sprintf("the upgrade handler panicked on this request (%v): %s", q.Labels, first)}, ""
			}
			if ur == nil || ur.panic == nil {
				if i > 20 {
					break
				}
			}
			time.Sleep(time.Millisecond)
		}
	}
	accepted := rerr == nil && resp.StatusCode == 101
	valid := len(q.Bad) == 0
	unspecified := len(q.Either) > 0
	if accepted {
		c.Count("handshakes_accepted", 1)
	} else {
		c.Count("handshakes_rejected", 1)
		if rerr != nil {
			c.Count("rejected_by_closing_without_response", 1)
		}
	}
	if !accepted {
		if rerr == nil && (resp.StatusCode < 400 || resp.StatusCode > 599) {
			return &verdict{"handshake-rejection-status", fmt.Sprintf("upgrade refused with status %d (not an error status)", resp.StatusCode)}, ""
		}
		if ur != nil && ur.err == nil {
			return &verdict{"upgrade-result-inconsistent", "Upgrade returned no error but the client did not get a 101 response"}, ""
		}
		if valid && !unspecified {
			st := "connection closed without response"
			if rerr == nil {
				st = fmt.Sprint("status ", resp.StatusCode)
			}
			lab := "baseline"
			if len(q.Labels) > 0 {
				lab = q.Labels[0]
			}
			return &verdict{"handshake-rejected-valid:" + lab, fmt.Sprintf("valid upgrade request (%v) was refused: %s", q.Labels, st)}, ""
		}
		if !valid {
			for _, l := range q.Bad {
				c.Count("rejected:"+l, 1)
			}
			if contains(q.Bad, "version-8") || contains(q.Bad, "version-14") || contains(q.Bad, "version-12") {
				if rerr == nil && strings.Contains(resp.Header.Get("Sec-Websocket-Version"), "13") {
					c.Count("version_mismatch_answered_with_supported_version", 1)
				}
			}
		} else {
			for _, l := range q.Either {
				c.Count("unspecified_rejected:"+l, 1)
			}
		}
		return nil, ""
	}
	// accepted
	if !valid {
		if len(q.Bad) == 1 || !unspecified {
			return &verdict{"handshake-accepted-invalid:" + q.Bad[0], fmt.Sprintf("upgrade accepted although the request is not a valid WebSocket handshake (%v)", q.Bad)}, ""
		}
	}
	if valid && unspecified {
		for _, l := range q.Either {
			c.Count("unspecified_accepted:"+l, 1)
		}
	}
	if ur != nil && ur.err != nil {
		return &verdict{"upgrade-result-inconsistent", fmt.Sprintf("client got 101 but Upgrade returned %v", ur.err)}, ""
	}
	// response headers
	if !contains(wsmodel.HeaderTokens(resp.Header, "Upgrade"), "websocket") || !contains(wsmodel.HeaderTokens(resp.Header, "Connection"), "upgrade") {
		return &verdict{"handshake-response-headers", fmt.Sprintf("101 response lacks Upgrade: websocket / Connection: Upgrade (%v)", resp.Header)}, ""
	}
	if len(q.Either) == 0 || !contains(q.Either, "key-two-lines") {
		if got, want := resp.Header.Get("Sec-Websocket-Accept"), wsmodel.AcceptKey(q.Key); got != want {
			return &verdict{"accept-key-wrong", fmt.Sprintf("Sec-WebSocket-Accept %q, RFC 6455 4.2.2 gives %q for key %q", got, want, q.Key)}, ""
		}
	}
	protos := resp.Header.Values("Sec-Websocket-Protocol")
	if len(protos) > 1 {
		return &verdict{"subprotocol-header-repeated", fmt.Sprintf("%d Sec-WebSocket-Protocol headers in the response", len(protos))}, ""
	}
	if len(protos) == 1 {
		if !contains(q.Offered, protos[0]) {
			return &verdict{"subprotocol-not-offered", fmt.Sprintf("server selected subprotocol %q, client offered %v", protos[0], q.Offered)}, ""
		}
		if !contains(q.Supported, protos[0]) {
			return &verdict{"subprotocol-not-supported", fmt.Sprintf("server selected subprotocol %q, it supports %v", protos[0], q.Supported)}, ""
		}
		c.Count("subprotocol_selected", 1)
		if ur != nil && ur.sub != protos[0] {
			return &verdict{"subprotocol-result-inconsistent", fmt.Sprintf("Upgrade returned subprotocol %q, response header says %q", ur.sub, protos[0])}, ""
		}
	} else {
		match := false
		for _, o := range q.Offered {
			if contains(q.Supported, o) {
				match = true
			}
		}
		if match {
			c.Count("subprotocol_not_selected_despite_match", 1)
		} else {
			c.Count("subprotocol_none_no_match", 1)
		}
	}
	deflate := false
	for _, ev := range resp.Header.Values("Sec-Websocket-Extensions") {
		for _, ext := range strings.Split(ev, ",") {
			parts := strings.Split(ext, ";")
			name := strings.ToLower(strings.TrimSpace(parts[0]))
			if !contains(q.OfferedExt, name) {
				return &verdict{"extension-not-offered", fmt.Sprintf("response negotiates extension %q, client offered %v", name, q.OfferedExt)}, ""
			}
			if name != "permessage-deflate" || !q.Compress {
				return &verdict{"extension-unexpected", fmt.Sprintf("response negotiates extension %q (server compression enabled: %v)", name, q.Compress)}, ""
			}
			if deflate {
				return &verdict{"extension-repeated", "permessage-deflate negotiated twice"}, ""
			}
			deflate = true
			for _, p := range parts[1:] {
				pn := strings.ToLower(strings.TrimSpace(strings.Split(p, "=")[0]))
				switch pn {
				case "server_no_context_takeover", "client_no_context_takeover", "server_max_window_bits":
				case "client_max_window_bits":
					if !strings.Contains(q.ExtOffer, "client_max_window_bits") {
						return &verdict{"extension-parameter-not-offered", "client_max_window_bits in the response without being offered (RFC 7692 7.1.2.2)"}, ""
					}
				default:
					return &verdict{"extension-parameter-unknown", fmt.Sprintf("unknown permessage-deflate parameter %q in the response", pn)}, ""
				}
			}
			if strings.Contains(q.ExtOffer, "server_max_window_bits") && !strings.Contains(ext, "server_max_window_bits") {
				c.Count("server_max_window_bits_offer_accepted_without_honouring", 1)
			}
		}
	}
	if deflate {
		c.Count("compression_negotiated", 1)
	} else if q.Compress && contains(q.OfferedExt, "permessage-deflate") {
		c.Count("compression_offered_not_negotiated", 1)
	}
	if q.PreData {
		return nil, "" // the probe frame was part of the first write; nothing more to learn
	}
	// the upgraded connection must work
	readText := func() ([]byte, error) {
		for i := 0; i < 8; i++ {
			f, err := wsmodel.ReadFrame(rc.br, 1<<20)
			if err != nil {
				return nil, err
			}
			if f.Masked || f.RSV2 || f.RSV3 || (f.RSV1 && !deflate) {
				return nil, fmt.Errorf("invalid server frame: masked=%v rsv=%v%v%v", f.Masked, f.RSV1, f.RSV2, f.RSV3)
			}
			if f.Opcode == wsmodel.OpText || f.Opcode == wsmodel.OpBinary {
				if !f.Fin {
					return nil, errors.New("unexpected fragmented reply")
				}
				if f.RSV1 {
					d, _, ierr := wsmodel.Inflate(f.Payload, 0)
					return d, ierr
				}
				return f.Payload, nil
			}
			if f.Opcode == wsmodel.OpClose {
				return nil, fmt.Errorf("server closed: %x", f.Payload)
			}
		}
		return nil, errors.New("no data frame among 8 frames")
	}
	if q.Path == "/up" {
		if ur == nil {
			return nil, "handler result missing"
		}
		conn := ur.conn
		defer conn.Close()
		if conn.IsCompressionNegotiated() != deflate {
			return &verdict{"extension-result-inconsistent", fmt.Sprintf("response header negotiates deflate=%v, Conn says %v", deflate, conn.IsCompressionNegotiated())}, ""
		}
		rc.send(wsmodel.Frame{Fin: true, Opcode: wsmodel.OpText, Payload: probe}, c.R)
		_ = conn.SetReadDeadline(time.Now().Add(bound))
		mt, p, err := conn.ReadMessage()
		if isTimeout(err) {
			return nil, "server side read timed out"
		}
		if err != nil || mt != websocket.TextMessage || string(p) != string(probe) {
			return &verdict{"upgraded-connection-unusable", fmt.Sprintf("after the handshake the server read type=%d %q err=%v, client sent %q", mt, p, err, probe)}, ""
		}
		if err := conn.WriteMessage(websocket.TextMessage, append([]byte("re:"), probe...)); err != nil {
			return &verdict{"upgraded-connection-unusable", "server write failed: " + err.Error()}, ""
		}
		got, err := readText()
		if isTimeout(err) {
			return nil, "client side read timed out"
		}
		if err != nil || string(got) != "re:"+string(probe) {
			return &verdict{"upgraded-connection-unusable", fmt.Sprintf("client read %q err=%v, server wrote %q", got, err, "re:"+string(probe))}, ""
		}
		c.Count("echo_verified", 1)
		return nil, ""
	}
	// centrifuge handler: JSON connect command must be answered
	if len(protos) == 1 && protos[0] == "centrifuge-protobuf" {
		c.Count("protobuf_subprotocol_selected", 1)
		return nil, ""
	}
	rc.send(wsmodel.Frame{Fin: true, Opcode: wsmodel.OpText, Payload: []byte(`{"id":1,"connect":{}}`)}, c.R)
	got, err := readText()
	if isTimeout(err) {
		return nil, "no connect reply within the bound"
	}
	if err != nil || !strings.Contains(string(got), `"id":1`) || !strings.Contains(string(got), `"connect"`) {
		return &verdict{"upgraded-connection-unusable", fmt.Sprintf("connect command not answered: %q err=%v", got, err)}, ""
	}
	c.Count("connect_reply_verified", 1)
	return nil, ""
}

// ---------------------------------------------------------------------------------------------
// (b) Client.Disconnect -> close frame

var runes = []string{"a", "é", "π", "Ж", "中", "€", "😀", "𝄞"}

// reasonOfLen builds valid UTF-8 of exactly n bytes whose last rune has width w (if possible).
func reasonOfLen(r *kit.Rand, n int) string {
	if n == 0 {
		return ""
	}
	last := kit.Pick(r, runes)
	for len(last) > n {
		last = "z"
	}
	var b []byte
	for len(b) < n-len(last) {
		p := kit.Pick(r, runes)
		if len(b)+len(p) > n-len(last) {
			p = "-"
		}
		b = append(b, p...)
	}
	return string(b) + last
}

func (e *env) closeMetric() map[string]float64 {
	out := map[string]float64{}
	mfs, err := e.reg.Gather()
	if err != nil {
		return out
	}
	for _, mf := range mfs {
		if mf.GetName() != "centrifuge_transport_outgoing_close_count" {
			continue
		}
		for _, m := range mf.GetMetric() {
			var tr, code string
			for _, l := range m.GetLabel() {
				switch l.GetName() {
				case "transport":
					tr = l.GetValue()
				case "code":
					code = l.GetValue()
				}
			}
			if tr == "websocket" {
				out[code] = m.GetCounter().GetValue()
			}
		}
	}
	return out
}

func diffMetric(before, after map[string]float64) map[string]float64 {
	d := map[string]float64{}
	for k, v := range after {
		if v != before[k] {
			d[k] = v - before[k]
		}
	}
	return d
}

// connectCentrifuge performs a valid handshake + connect command and returns the server-side client.
func connectCentrifuge(c *kit.Case, e *env, compress bool) (*rawClient, *centrifuge.Client, bool, string) {
	rc, cl, deflate, _, inc := connectCentrifugeTracked(c, e, compress)
	return rc, cl, deflate, inc
}

// connectCentrifugeTracked also returns a channel that is closed when the server's handler for this
// connection has returned.
func connectCentrifugeTracked(c *kit.Case, e *env, compress bool) (*rawClient, *centrifuge.Client, bool, chan struct{}, string) {
	for len(e.clients) > 0 {
		<-e.clients
	}
	rc, err := e.dial()
	if err != nil {
		return nil, nil, false, nil, "dial failed"
	}
	name := fmt.Sprintf("t%d-%d", c.Index, trialSeq.Add(1))
	served := make(chan struct{})
	e.served.Store(name, served)
	path := "/connection/websocket"
	ext := ""
	if compress {
		path = "/connection/websocket-z"
		ext = "Sec-WebSocket-Extensions: permessage-deflate; client_max_window_bits\r\n"
	}
	key := b64(16, c.R)
	_, _ = rc.pc.Write([]byte("GET " + path + "?t=" + name + " HTTP/1.1\r\nHost: example.test\r\nUpgrade: websocket\r\nConnection: Upgrade\r\nSec-WebSocket-Version: 13\r\nSec-WebSocket-Key: " + key + "\r\n" + ext + "\r\n"))
	resp, err := http.ReadResponse(rc.br, &http.Request{Method: "GET"})
	if err != nil || resp.StatusCode != 101 {
		rc.pc.Close()
		return nil, nil, false, nil, fmt.Sprintf("baseline handshake failed: %v", err)
	}
	deflate := strings.Contains(resp.Header.Get("Sec-Websocket-Extensions"), "permessage-deflate")
	// the connection is recognised by a unique name (OnConnect of an earlier trial's connection may still be in flight)
	rc.send(wsmodel.Frame{Fin: true, Opcode: wsmodel.OpText, Payload: []byte(`{"id":1,"connect":{"name":"` + name + `"}}`)}, c.R)
	timeout := time.After(bound)
	for {
		select {
		case cl := <-e.clients:
			if cl.UserID() == "u-"+name {
				return rc, cl, deflate, served, ""
			}
		case <-timeout:
			rc.pc.Close()
			return nil, nil, false, nil, "client did not connect within the bound"
		}
	}
}

var trialSeq atomic.Int64

func disconnectTrial(c *kit.Case, e *env, r *kit.Rand) (*verdict, string, map[string]any) {
	compress := r.Chance(1, 3)
	rc, cl, _, served, inc := connectCentrifugeTracked(c, e, compress)
	if inc != "" {
		return nil, inc, nil
	}
	defer rc.pc.Close()
	code := uint32(kit.Pick(r, []int{3001, 3004, 3005, 3500, 3501, 3999, 4000, 4001, 4500, 4999, r.Range(3001, 4999)}))
	n := kit.Pick(r, []int{0, 1, 2, 3, 60, 119, 120, 121, 122, 123, 123, 123, 124, 125, 126, 127, 130, r.Intn(131)})
	reason := reasonOfLen(r, n)
	det := map[string]any{"code": code, "reason": reason, "reason_bytes": len(reason), "compression": compress}
	before := e.closeMetric()
	cl.Disconnect(centrifuge.Disconnect{Code: code, Reason: reason})
	fits := 2+len(reason) <= 125
	var closeFrame *wsmodel.Frame
	var rerr error
	for i := 0; i < 16; i++ {
		f, err := wsmodel.ReadFrame(rc.br, 1<<20)
		if err != nil {
			rerr = err
			break
		}
		if f.Opcode == wsmodel.OpClose {
			closeFrame = &f
			break
		}
	}
	if isTimeout(rerr) {
		return nil, "no close frame and no EOF within the bound after Disconnect", det
	}
	if closeFrame == nil {
		if fits {
			return &verdict{"disconnect-close-frame-missing", fmt.Sprintf("Disconnect(code=%d, reason of %d bytes): connection ended (%v) without a close frame although code+reason fit a control frame", code, len(reason), rerr)}, "", det
		}
		c.Count("overlong_reason_no_close_frame", 1)
		return nil, "", det
	}
	f := *closeFrame
	if f.Masked || !f.Fin || f.RSV1 || f.RSV2 || f.RSV3 || len(f.Payload) > 125 || len(f.Payload) == 1 {
		return &verdict{"disconnect-close-frame-malformed", fmt.Sprintf("close frame masked=%v fin=%v len=%d", f.Masked, f.Fin, len(f.Payload))}, "", det
	}
	gotCode, gotReason := 1005, ""
	if len(f.Payload) >= 2 {
		gotCode, gotReason = int(binary.BigEndian.Uint16(f.Payload)), string(f.Payload[2:])
	}
	det["got_code"], det["got_reason"] = gotCode, gotReason
	if fits {
		if gotCode != int(code) || gotReason != reason {
			return &verdict{"disconnect-close-frame-differs", fmt.Sprintf("Disconnect(code=%d, reason %q) produced close frame code=%d reason %q", code, reason, gotCode, gotReason)}, "", det
		}
		c.Count("disconnect_close_frame_exact", 1)
		if len(reason) >= 120 {
			c.Count("disconnect_reason_120_to_123_bytes", 1)
		}
	} else {
		if !utf8.ValidString(gotReason) {
			return &verdict{"disconnect-close-reason-invalid-utf8", fmt.Sprintf("over-long reason was cut inside a UTF-8 sequence: %q", gotReason)}, "", det
		}
		c.Count("overlong_reason_close_frame_sent", 1)
	}
	// complete the closing handshake so that the handler finishes
	rc.send(wsmodel.Frame{Fin: true, Opcode: wsmodel.OpClose, Payload: wsmodel.ClosePayload(gotCode, "")}, r)
	rc.pc.CloseWrite()
	// recorded outgoing close code
	want := fmt.Sprint(gotCode)
	deadline := time.Now().Add(bound)
	for {
		d := diffMetric(before, e.closeMetric())
		if len(d) > 0 {
			if len(d) != 1 || d[want] != 1 {
				return &verdict{"recorded-close-code-differs", fmt.Sprintf("close frame with code %d was sent first, recorded outgoing close codes changed by %v", gotCode, d)}, "", det
			}
			c.Count("recorded_outgoing_close_code_verified", 1)
			return nil, "", det
		}
		select {
		case <-served:
			// the handler has returned: its last act, the metric update, has happened or never will
			if d := diffMetric(before, e.closeMetric()); len(d) == 0 {
				return &verdict{"recorded-close-code-missing", fmt.Sprintf("the server sent the first close frame (code %d), the peer echoed it and the handler returned, but no outgoing close code was recorded", gotCode)}, "", det
			}
			continue
		default:
		}
		if time.Now().After(deadline) {
			return nil, "outgoing close code was not recorded within the bound", det
		}
		time.Sleep(time.Millisecond)
	}
}

// ---------------------------------------------------------------------------------------------
// (c) received close frames, CloseCode()

var validCodes = []int{1000, 1001, 1002, 1003, 1007, 1008, 1009, 1010, 1011, 3000, 3001, 3999, 4000, 4999}
var forbiddenCodes = []int{0, 1, 500, 999, 1005, 1006, 1015}
var unspecifiedCodes = []int{1004, 1012, 1013, 1014, 1016, 1100, 2000, 2999, 5000, 9999, 65535}
var badUTF8 = []string{"\xff", "ab\xc0\xaf", "\xed\xa0\x80", "ok\xe2\x82", "\xf8\x88\x80\x80\x80", "x\x80", "\xf4\x90\x80\x80"}

func upgradedPair(c *kit.Case, e *env) (*rawClient, *websocket.Conn, string) {
	e.upCfg.Store(&upConfig{})
	for len(e.upCh) > 0 {
		<-e.upCh
	}
	rc, err := e.dial()
	if err != nil {
		return nil, nil, "dial failed"
	}
	_, _ = rc.pc.Write([]byte("GET /up HTTP/1.1\r\nHost: example.test\r\nUpgrade: websocket\r\nConnection: Upgrade\r\nSec-WebSocket-Version: 13\r\nSec-WebSocket-Key: " + b64(16, c.R) + "\r\n\r\n"))
	resp, err := http.ReadResponse(rc.br, &http.Request{Method: "GET"})
	if err != nil || resp.StatusCode != 101 {
		rc.pc.Close()
		return nil, nil, fmt.Sprintf("baseline handshake failed: %v", err)
	}
	select {
	case ur := <-e.upCh:
		if ur.conn == nil {
			rc.pc.Close()
			return nil, nil, "baseline upgrade failed"
		}
		_ = ur.conn.SetReadDeadline(time.Now().Add(bound))
		return rc, ur.conn, ""
	case <-time.After(bound):
		rc.pc.Close()
		return nil, nil, "handler result missing"
	}
}

// serverCloseFrames drains what the server wrote (everything is already buffered).
func serverCloseFrames(rc *rawClient) (closes []wsmodel.Frame, others int, err error) {
	rc.pc.NonBlocking.Store(true)
	for {
		f, rerr := wsmodel.ReadFrame(rc.br, 1<<20)
		if rerr != nil {
			if errors.Is(rerr, wsmodel.ErrWouldBlock) {
				return closes, others, nil
			}
			return closes, others, rerr
		}
		if f.Opcode == wsmodel.OpClose {
			closes = append(closes, f)
		} else {
			others++
		}
	}
}

func codeOf(f wsmodel.Frame) int {
	if len(f.Payload) >= 2 {
		return int(binary.BigEndian.Uint16(f.Payload))
	}
	return 1005
}

func receivedCloseTrial(c *kit.Case, e *env, r *kit.Rand) (*verdict, string, map[string]any) {
	rc, conn, inc := upgradedPair(c, e)
	if inc != "" {
		return nil, inc, nil
	}
	defer rc.pc.Close()
	defer conn.Close()
	scenario := kit.Pick(r, []string{"valid", "valid", "forbidden", "forbidden", "bad-utf8", "unspecified", "empty", "server-first", "server-first-writemessage", "client-first-then-server", "two-client-closes", "race", "race", "race", "race"})
	det := map[string]any{"scenario": scenario}
	reason := reasonOfLen(r, kit.Pick(r, []int{0, 0, 3, 50, 123}))
	readErr := func() (error, *websocket.CloseError) {
		for i := 0; i < 4; i++ {
			_, _, err := conn.ReadMessage()
			if err != nil {
				var ce *websocket.CloseError
				if errors.As(err, &ce) && ce.Code != websocket.CloseAbnormalClosure {
					return err, ce
				}
				return err, nil
			}
		}
		return nil, nil
	}
	switch scenario {
	case "valid", "empty", "unspecified", "forbidden", "bad-utf8":
		code := kit.Pick(r, validCodes)
		payload := wsmodel.ClosePayload(code, reason)
		switch scenario {
		case "empty":
			code, payload, reason = 1005, nil, ""
		case "unspecified":
			code = kit.Pick(r, unspecifiedCodes)
			payload = wsmodel.ClosePayload(code, reason)
		case "forbidden":
			code = kit.Pick(r, forbiddenCodes)
			if r.Chance(1, 3) {
				code = r.Intn(1000)
			}
			payload = wsmodel.ClosePayload(code, reason)
		case "bad-utf8":
			reason = kit.Pick(r, badUTF8)
			payload = wsmodel.ClosePayload(code, reason)
		}
		det["code"], det["reason"] = code, fmt.Sprintf("%q", reason)
		rc.send(wsmodel.Frame{Fin: true, Opcode: wsmodel.OpClose, Payload: payload}, r)
		err, ce := readErr()
		if isTimeout(err) {
			return nil, "server read timed out", det
		}
		closes, _, _ := serverCloseFrames(rc)
		rcode, incoming := conn.CloseCode()
		det["reader_error"], det["recorded"] = fmt.Sprint(err), fmt.Sprintf("%d incoming=%v", rcode, incoming)
		switch scenario {
		case "forbidden", "bad-utf8":
			if ce != nil || err == nil {
				return &verdict{"received-close-accepted:" + scenario, fmt.Sprintf("close frame with code %d reason %q was accepted (reader returned %v)", code, reason, err)}, "", det
			}
			okCodes := []int{1002}
			if scenario == "bad-utf8" {
				okCodes = []int{1002, 1007}
			}
			if len(closes) != 1 || !containsInt(okCodes, codeOf(closes[0])) {
				return &verdict{"received-close-rejection-code:" + scenario, fmt.Sprintf("invalid close frame (code %d reason %q) must be answered with close %v; server wrote %d close frames %v", code, reason, okCodes, len(closes), codesOf(closes))}, "", det
			}
			if incoming && rcode == code && scenario == "forbidden" {
				return &verdict{"rejected-close-code-recorded", fmt.Sprintf("the forbidden code %d of a rejected close frame was recorded as the connection's close code", code)}, "", det
			}
			c.Count("received_close_rejected:"+scenario, 1)
		case "unspecified":
			if ce != nil {
				c.Count("unspecified_close_code_accepted", 1)
			} else {
				c.Count("unspecified_close_code_rejected", 1)
			}
		default:
			if ce == nil {
				return &verdict{"received-close-not-reported", fmt.Sprintf("valid close frame (code %d) but the reader returned %v", code, err)}, "", det
			}
			if ce.Code != code || ce.Text != reason {
				return &verdict{"received-close-misreported", fmt.Sprintf("close %d %q reported as %d %q", code, reason, ce.Code, ce.Text)}, "", det
			}
			if len(closes) != 1 {
				return &verdict{"received-close-not-answered", fmt.Sprintf("server wrote %d close frames in response to the client's close frame", len(closes))}, "", det
			}
			if rcode != code || !incoming {
				return &verdict{"recorded-close-code-not-first-frame", fmt.Sprintf("first close frame observed: incoming %d; CloseCode() = (%d, incoming=%v)", code, rcode, incoming)}, "", det
			}
			c.Count("received_close_accepted_and_recorded", 1)
		}
	case "server-first", "server-first-writemessage":
		x, y := kit.Pick(r, validCodes), kit.Pick(r, validCodes)
		det["server_code"], det["client_code"] = x, y
		var werr error
		if scenario == "server-first" {
			werr = conn.WriteControl(websocket.CloseMessage, websocket.FormatCloseMessage(x, reason), time.Time{})
		} else {
			werr = conn.WriteMessage(websocket.CloseMessage, websocket.FormatCloseMessage(x, reason))
		}
		if werr != nil {
			return &verdict{"close-write-failed", werr.Error()}, "", det
		}
		rc.send(wsmodel.Frame{Fin: true, Opcode: wsmodel.OpClose, Payload: wsmodel.ClosePayload(y, "")}, r)
		err, ce := readErr()
		if isTimeout(err) {
			return nil, "server read timed out", det
		}
		if ce == nil || ce.Code != y {
			return &verdict{"received-close-not-reported", fmt.Sprintf("client close %d after server close: reader returned %v", y, err)}, "", det
		}
		closes, _, _ := serverCloseFrames(rc)
		if len(closes) != 1 || codeOf(closes[0]) != x || string(closes[0].Payload[2:]) != reason {
			return &verdict{"server-close-frame-differs", fmt.Sprintf("server wrote close %d %q; on the wire: %v", x, reason, codesOf(closes))}, "", det
		}
		if rcode, incoming := conn.CloseCode(); rcode != x || incoming {
			if scenario == "server-first-writemessage" {
				return &verdict{"close-sent-through-writer-not-recorded", fmt.Sprintf("first close frame observed: outgoing %d written with WriteMessage(CloseMessage) (then incoming %d); CloseCode() = (%d, incoming=%v)", x, y, rcode, incoming)}, "", det
			}
			return &verdict{"recorded-close-code-not-first-frame", fmt.Sprintf("first close frame observed: outgoing %d (then incoming %d); CloseCode() = (%d, incoming=%v)", x, y, rcode, incoming)}, "", det
		}
		c.Count("first_close_outgoing_recorded", 1)
	case "client-first-then-server":
		x, y := kit.Pick(r, validCodes), kit.Pick(r, validCodes)
		det["server_code"], det["client_code"] = x, y
		rc.send(wsmodel.Frame{Fin: true, Opcode: wsmodel.OpClose, Payload: wsmodel.ClosePayload(y, reason)}, r)
		err, ce := readErr()
		if isTimeout(err) {
			return nil, "server read timed out", det
		}
		if ce == nil || ce.Code != y {
			return &verdict{"received-close-not-reported", fmt.Sprintf("client close %d: reader returned %v", y, err)}, "", det
		}
		werr := conn.WriteControl(websocket.CloseMessage, websocket.FormatCloseMessage(x, ""), time.Time{})
		closes, _, _ := serverCloseFrames(rc)
		if len(closes) != 1 {
			return &verdict{"second-close-frame-written", fmt.Sprintf("server wrote %d close frames (WriteControl after the echo returned %v)", len(closes), werr)}, "", det
		}
		if rcode, incoming := conn.CloseCode(); rcode != y || !incoming {
			return &verdict{"recorded-close-code-not-first-frame", fmt.Sprintf("first close frame observed: incoming %d (later outgoing attempt %d); CloseCode() = (%d, incoming=%v)", y, x, rcode, incoming)}, "", det
		}
		c.Count("first_close_incoming_recorded", 1)
	case "two-client-closes":
		y1, y2 := kit.Pick(r, validCodes), kit.Pick(r, validCodes)
		det["client_codes"] = []int{y1, y2}
		rc.send(wsmodel.Frame{Fin: true, Opcode: wsmodel.OpClose, Payload: wsmodel.ClosePayload(y1, reason)}, r)
		rc.send(wsmodel.Frame{Fin: true, Opcode: wsmodel.OpClose, Payload: wsmodel.ClosePayload(y2, "")}, r)
		err, ce := readErr()
		if isTimeout(err) {
			return nil, "server read timed out", det
		}
		if ce == nil || ce.Code != y1 {
			return &verdict{"received-close-not-reported", fmt.Sprintf("client close %d: reader returned %v", y1, err)}, "", det
		}
		_, _, _ = conn.ReadMessage() // must stay failed
		if rcode, incoming := conn.CloseCode(); rcode != y1 || !incoming {
			return &verdict{"recorded-close-code-not-first-frame", fmt.Sprintf("first close frame observed: incoming %d (second %d); CloseCode() = (%d, incoming=%v)", y1, y2, rcode, incoming)}, "", det
		}
		c.Count("first_of_two_incoming_recorded", 1)
	case "race":
		// outgoing close and incoming close at the same moment: whichever frame the
		// connection handled first must be the recorded one, consistently with the wire.
		x, y := 4000+r.Intn(500), 3000+r.Intn(500)
		det["server_code"], det["client_code"] = x, y
		rc.send(wsmodel.Frame{Fin: true, Opcode: wsmodel.OpClose, Payload: wsmodel.ClosePayload(y, "")}, r)
		var wg sync.WaitGroup
		var werr, rerr error
		var rce *websocket.CloseError
		start := make(chan struct{})
		wg.Add(2)
		go func() {
			defer wg.Done()
			<-start
			werr = conn.WriteControl(websocket.CloseMessage, websocket.FormatCloseMessage(x, ""), time.Time{})
		}()
		go func() { defer wg.Done(); <-start; rerr, rce = readErr() }()
		close(start)
		wg.Wait()
		if isTimeout(rerr) {
			return nil, "server read timed out", det
		}
		closes, _, _ := serverCloseFrames(rc)
		rcode, incoming := conn.CloseCode()
		det["wire"], det["recorded"], det["write_error"] = codesOf(closes), fmt.Sprintf("%d incoming=%v", rcode, incoming), fmt.Sprint(werr)
		if rce == nil || rce.Code != y {
			return &verdict{"received-close-not-reported", fmt.Sprintf("client close %d: reader returned %v", y, rerr)}, "", det
		}
		if len(closes) != 1 {
			return &verdict{"second-close-frame-written", fmt.Sprintf("server wrote %d close frames %v", len(closes), codesOf(closes))}, "", det
		}
		sent := codeOf(closes[0])
		switch {
		case rcode == x && !incoming:
			// the outgoing close claims to be first: then it must be the frame on the wire
			if sent != x {
				return &verdict{"recorded-close-code-never-sent", fmt.Sprintf("CloseCode() = (%d, outgoing) but the only close frame the server wrote carries %d (the echo of the client's close): the recorded frame was never sent", x, sent)}, "", det
			}
			c.Count("race_outgoing_first", 1)
		case rcode == y && incoming:
			// the incoming frame was handled first; the server's single close frame is
			// either the echo or its own close, whichever got the write lock
			if sent != y && sent != x {
				return &verdict{"server-close-frame-differs", fmt.Sprintf("server close frame carries %d, expected %d (own) or %d (echo)", sent, x, y)}, "", det
			}
			c.Count("race_incoming_first", 1)
		default:
			return &verdict{"recorded-close-code-not-first-frame", fmt.Sprintf("close frames involved: outgoing %d, incoming %d; CloseCode() = (%d, incoming=%v)", x, y, rcode, incoming)}, "", det
		}
	}
	return nil, "", det
}

func containsInt(xs []int, x int) bool {
	for _, y := range xs {
		if x == y {
			return true
		}
	}
	return false
}

func codesOf(fs []wsmodel.Frame) []int {
	var out []int
	for _, f := range fs {
		out = append(out, codeOf(f))
	}
	return out
}

// ---------------------------------------------------------------------------------------------

var reported = map[string]int{}

func report(c *kit.Case, v *verdict, detail any) {
	reported[v.class]++
	if reported[v.class] > 3 {
		return
	}
	c.Violation(v.class, v.msg, detail)
}

func TestC31(t *testing.T) {
	const nHandshake, nDisconnect, nReceived = 40, 8, 20
	kit.Main(t, kit.Spec{
		ID:    "C31",
		Level: "exploration",
		Rule: fmt.Sprintf("Each case starts a real http.Server on an in-memory listener with (i) a handler calling the real websocket.Upgrader and (ii) centrifuge.WebsocketHandler (with and without compression) on a memory-engine Node, then runs %d handshake trials, %d disconnect trials and %d received-close trials with a raw client. ", nHandshake, nDisconnect, nReceived) +
			"Handshake trials: baseline valid request with 0-3 deviating dimensions out of method (POST/PUT/HEAD/OPTIONS/DELETE/get), HTTP/1.0, Connection (token lists, casing, two lines, missing, look-alike tokens), Upgrade (same), Sec-WebSocket-Version (missing, 0/1/8/12/14/130/013/13x, lists), Sec-WebSocket-Key (missing, empty, 8/15/17/18/20 bytes, non-base64, url-safe alphabet, unpadded, two lines), Origin vs Host (absent, same host in other case/scheme, other host/port, prefix/suffix/userinfo tricks, null); plus random subprotocol offers, extension offers, header-name casing, header order, data sent before the handshake ends. " +
			"Oracle: accepted <=> no deviation classified invalid by RFC 6455 4.2.1 / the documented default origin check (deviations the RFC leaves open are only counted); Sec-WebSocket-Accept recomputed (SHA-1/base64); selected subprotocol in offered and supported; negotiated extension offered and enabled; the upgraded connection carries an echo / a centrifuge connect reply. " +
			"Disconnect trials: JSON client connects through WebsocketHandler, server calls Client.Disconnect(code 3001..4999, reason of 0..130 bytes ending in a 1-4 byte rune); oracle: close frame with exactly that code and reason whenever 2+len<=125, and the outgoing-close metric changes for exactly that code. " +
			"Received-close trials (server Conn from the Upgrader): valid / empty / unspecified / forbidden codes, invalid UTF-8 reasons, server-first (WriteControl and WriteMessage), client-first, two client closes, concurrent outgoing+incoming close; oracle: forbidden codes and invalid UTF-8 are rejected with close 1002 (1007 also accepted for UTF-8), valid ones are reported and echoed, CloseCode() equals the first close frame observed and, in the race, is consistent with the frame actually written. " +
			"Non-trivial = every trial that reached its oracle; signature = trial kind + deviation labels / scenario.",
		Assumptions: []string{
			"validity classification of each handshake deviation is taken from RFC 6455 4.1/4.2.1 (token lists and case-insensitivity accepted); empty list elements, protocol/version in Upgrade, version lists, non-canonical base64 and repeated key headers are treated as unspecified",
			"the origin check under test is the documented default (Origin absent, or its host equal to the Host header ignoring case)",
			"net/http's own request parsing sits in front of the Upgrader as in production; a connection closed without a response counts as a rejection",
			"close codes 1004, 1012-1014, 1016-2999 and >=5000 are neither required nor forbidden to be accepted (RFC 6455 7.4.2); only 0-999, 1005, 1006, 1015 and invalid UTF-8 reasons must be rejected",
			"asynchronous effects (connect reply, close frame after Disconnect, metric update after the handler returns) are awaited with a 3 minute bound whose expiry yields INCONCLUSIVE only",
		},
		Cases:       map[string]int{"quick": 120, "thorough": 1200},
		CaseTimeout: 20 * time.Minute,
		RequireCounters: []string{
			"handshakes_accepted", "handshakes_rejected", "echo_verified", "connect_reply_verified", "subprotocol_selected", "compression_negotiated",
			"rejected:http-1.0", "rejected:connection-missing", "rejected:upgrade-missing", "rejected:version-8", "rejected:version-missing", "rejected:key-missing", "rejected:key-15-bytes", "rejected:key-17-bytes", "rejected:origin-other-host", "rejected:method-POST",
			"disconnect_close_frame_exact", "disconnect_reason_120_to_123_bytes", "recorded_outgoing_close_code_verified",
			"received_close_rejected:forbidden", "received_close_rejected:bad-utf8", "received_close_accepted_and_recorded", "first_close_outgoing_recorded", "first_close_incoming_recorded", "first_of_two_incoming_recorded",
		},
		Setup: func() {
			runtime.GOMAXPROCS(4)
			debug.SetGCPercent(400)
		},
		Run: func(c *kit.Case) {
			e, err := newEnv()
			if err != nil {
				c.Inconclusive("environment: " + err.Error())
				return
			}
			defer e.close()
			for i := 0; i < nHandshake; i++ {
				c.Eval(1)
				q := genHandshake(c.R)
				v, inc := handshakeTrial(c, e, q)
				if inc != "" {
					c.Inconclusive("handshake trial: " + inc)
					return
				}
				if v != nil {
					report(c, v, map[string]any{"request": q, "raw": string(q.render())})
					continue
				}
				if c.Index == 0 && i < 2 {
					c.Sample(map[string]any{"kind": "handshake", "request": q})
				}
				c.Nontrivial("hs|" + q.Path + "|" + strings.Join(q.Labels, ","))
			}
			// The library stamps the control frames it sends itself (close frames, pongs)
			// with a 1 s wall-clock write deadline; on an overloaded machine such a write
			// can time out. A trial whose only symptom is a missing server control frame is
			// therefore repeated once with identical parameters; a real defect reproduces.
			retryable := func(v *verdict) bool {
				return v != nil && (strings.HasPrefix(v.class, "received-close-rejection-code:") || v.class == "received-close-not-answered" ||
					v.class == "disconnect-close-frame-missing" || v.class == "server-close-frame-differs")
			}
			tseed := c.Seed ^ uint64(c.Index+1)<<24
			for i := 0; i < nDisconnect; i++ {
				c.Eval(1)
				v, inc, det := disconnectTrial(c, e, kit.NewRand(tseed, uint64(1000+i)))
				if inc == "" && retryable(v) {
					if v2, inc2, _ := disconnectTrial(c, e, kit.NewRand(tseed, uint64(1000+i))); v2 == nil && inc2 == "" {
						c.Count("first_run_not_reproduced", 1)
						v = nil
					}
				}
				if inc != "" {
					c.Inconclusive("disconnect trial: " + inc)
					return
				}
				if v != nil {
					report(c, v, det)
					continue
				}
				if c.Index == 0 && i == 0 {
					c.Sample(map[string]any{"kind": "disconnect", "detail": det})
				}
				c.Nontrivial(fmt.Sprintf("dc|%v|%v", det["reason_bytes"], det["compression"]))
			}
			for i := 0; i < nReceived; i++ {
				c.Eval(1)
				v, inc, det := receivedCloseTrial(c, e, kit.NewRand(tseed, uint64(2000+i)))
				if inc == "" && retryable(v) {
					if v2, inc2, _ := receivedCloseTrial(c, e, kit.NewRand(tseed, uint64(2000+i))); v2 == nil && inc2 == "" {
						c.Count("first_run_not_reproduced", 1)
						v = nil
					}
				}
				if inc != "" {
					c.Inconclusive("received-close trial: " + inc)
					return
				}
				if v != nil {
					report(c, v, det)
					continue
				}
				c.Nontrivial(fmt.Sprintf("rc|%v|%v", det["scenario"], det["code"]))
			}
		},
	})
}
