// Package kit is the shared runtime of the /verif checks: case scheduling over
// child processes, deterministic PRNG, evidence and verdict bookkeeping.
//
// A check is one Go test (TestCxx) that calls kit.Main with a Spec. The test
// process ("parent") re-executes its own binary as N child processes, each of
// which runs a strided share of the PRNG-determined case list and writes a
// partial result file. The parent merges the partial results, matches
// violations against /verif/known_findings.json, writes evidence/<id>.json and
// prints the verdict lines that ./check turns into an exit code.
package kit

import (
	"bufio"
	"bytes"
	"encoding/json"
	"fmt"
	"hash/fnv"
	"os"
	"os/exec"
	"path/filepath"
	"regexp"
	"runtime"
	"runtime/debug"
	"sort"
	"strconv"
	"strings"
	"sync"
	"sync/atomic"
	"syscall"
	"testing"
	"testing/synctest"
	"time"
)

// Spec describes one property check.
type Spec struct {
	ID          string
	Level       string // exploration | fault_enumeration | ...
	Rule        string // how cases are generated and what makes one non-trivial
	Assumptions []string
	// Cases gives the number of cases per tier ("quick", "thorough").
	Cases map[string]int
	// Procs is the number of child processes (0 = min(NumCPU, 16)).
	Procs int
	// Bubble runs every case inside a testing/synctest bubble (virtual time).
	Bubble bool
	// CaseTimeout is the real-time watchdog per case (default 600s). Its firing is
	// never a property verdict: it yields INCONCLUSIVE unless the process is idle
	// (no CPU used for 3s while nothing completes), which is reported as a deadlock.
	CaseTimeout time.Duration
	// MinNontrivial is the minimum number of distinct non-trivial signatures a run
	// must observe; below it the run is INCONCLUSIVE (default 2).
	MinNontrivial int
	// RequireCounters lists counters that must be > 0 (else INCONCLUSIVE): the
	// windows/paths the check exists to reach.
	RequireCounters []string
	Exhaustive      bool
	// Run executes case c. It reports through c.
	Run func(c *Case)
	// Setup runs once per child process before the first case.
	Setup func()
}

// Violation is one observed breach of the property.
type Violation struct {
	Class  string `json:"class"` // stable classification; matched against known findings
	Msg    string `json:"msg"`
	Case   int    `json:"case"`
	Detail any    `json:"detail,omitempty"`
}

type partial struct {
	Shard      int              `json:"shard"`
	Evals      int64            `json:"evals"`
	CasesDone  int              `json:"cases_done"`
	Sigs       []uint64         `json:"sigs"`
	Counters   map[string]int64 `json:"counters"`
	Samples    []any            `json:"samples"`
	Violations []Violation      `json:"violations"`
	Inconcl    []string         `json:"inconclusive"`
	Frozen     []int            `json:"frozen"`
}

type childState struct {
	mu         sync.Mutex
	evals      int64
	sigs       map[uint64]struct{}
	counters   map[string]int64
	samples    []any
	violations []Violation
	inconcl    []string
	casesDone  int
	frozen     []int
}

// Case is the handle a check uses to report what it observed for one case.
type Case struct {
	Index   int
	R       *Rand
	T       *testing.T
	Tier    string
	Seed    uint64
	Verbose bool
	// Bubble is true when the case runs inside a testing/synctest bubble.
	Bubble bool
	st     *childState
	nviol   int32
}

// Eval adds n to the number of evaluations (a case counts as one by default).
func (c *Case) Eval(n int) {
	c.st.mu.Lock()
	c.st.evals += int64(n)
	c.st.mu.Unlock()
}

// Nontrivial records a non-trivial observation by its signature; distinct
// signatures are counted for evidence.
func (c *Case) Nontrivial(sig string) {
	h := fnv.New64a()
	_, _ = h.Write([]byte(sig))
	v := h.Sum64()
	c.st.mu.Lock()
	c.st.sigs[v] = struct{}{}
	c.st.mu.Unlock()
}

// Count adds n to a named coverage counter.
func (c *Case) Count(name string, n int) {
	c.st.mu.Lock()
	c.st.counters[name] += int64(n)
	c.st.mu.Unlock()
}

// Sample offers v as an example case for the evidence file (first few are kept).
func (c *Case) Sample(v any) {
	c.st.mu.Lock()
	if len(c.st.samples) < 3 {
		c.st.samples = append(c.st.samples, v)
	}
	c.st.mu.Unlock()
}

// Violation records a breach. class must be a stable, specific classification.
func (c *Case) Violation(class, msg string, detail any) {
	atomic.AddInt32(&c.nviol, 1)
	c.st.mu.Lock()
	same := 0
	for _, v := range c.st.violations {
		if v.Class == class {
			same++
		}
	}
	if same >= 5 {
		detail = nil // keep the count, drop the bulk
	}
	if len(c.st.violations) < 2000 {
		c.st.violations = append(c.st.violations, Violation{Class: class, Msg: msg, Case: c.Index, Detail: detail})
	}
	c.st.mu.Unlock()
	if c.Verbose {
		fmt.Fprintf(os.Stderr, "violation case=%d class=%s msg=%s\n", c.Index, class, msg)
	}
}

// Violated reports whether this case already recorded a violation.
func (c *Case) Violated() bool { return atomic.LoadInt32(&c.nviol) > 0 }

// Inconclusive records that this case could not be decided (not a verdict).
func (c *Case) Inconclusive(reason string) {
	c.st.mu.Lock()
	if len(c.st.inconcl) < 50 {
		c.st.inconcl = append(c.st.inconcl, fmt.Sprintf("case %d: %s", c.Index, reason))
	}
	c.st.mu.Unlock()
}

// Logf logs when running verbosely (replay).
func (c *Case) Logf(format string, args ...any) {
	if c.Verbose {
		fmt.Fprintf(os.Stderr, format+"\n", args...)
	}
}

func envInt(name string, def int64) int64 {
	v := os.Getenv(name)
	if v == "" {
		return def
	}
	n, err := strconv.ParseInt(v, 10, 64)
	if err != nil {
		return def
	}
	return n
}

// VerifDir is the /verif root the check runs against (cwd by default).
func VerifDir() string {
	if d := os.Getenv("VERIF_DIR"); d != "" {
		return d
	}
	d, _ := os.Getwd()
	return d
}

func tier() string {
	if os.Getenv("VERIF_TIER") == "thorough" {
		return "thorough"
	}
	return "quick"
}

// Main runs the check described by spec. It is the whole body of a TestCxx.
func Main(t *testing.T, spec Spec) {
	if spec.Level == "" {
		spec.Level = "exploration"
	}
	if spec.MinNontrivial == 0 {
		spec.MinNontrivial = 2
	}
	if spec.CaseTimeout == 0 {
		spec.CaseTimeout = 600 * time.Second
	}
	if os.Getenv("VERIF_CHILD") == "1" {
		runChild(t, &spec)
		return
	}
	runParent(t, &spec)
}

// ---------------------------------------------------------------------------------------------
// child

func runChild(t *testing.T, spec *Spec) {
	shard := int(envInt("VERIF_SHARD", 0))
	nshards := int(envInt("VERIF_NSHARDS", 1))
	seed := uint64(envInt("VERIF_SEED", 1))
	tr := tier()
	total := spec.Cases[tr]
	only := envInt("VERIF_ONLY_CASE", -1)
	resumeAfter := envInt("VERIF_RESUME_AFTER", -1)
	verbose := os.Getenv("VERIF_VERBOSE") == "1"
	outPath := os.Getenv("VERIF_PARTIAL")

	st := &childState{sigs: map[uint64]struct{}{}, counters: map[string]int64{}}
	write := func() {
		st.mu.Lock()
		p := partial{Shard: shard, Evals: st.evals, CasesDone: st.casesDone, Counters: st.counters,
			Samples: st.samples, Violations: st.violations, Inconcl: st.inconcl, Frozen: st.frozen}
		for s := range st.sigs {
			p.Sigs = append(p.Sigs, s)
		}
		b, err := json.Marshal(p)
		st.mu.Unlock()
		if err != nil {
			// A sample or detail that cannot be marshalled must not lose the verdicts.
			p.Samples = nil
			for i := range p.Violations {
				p.Violations[i].Detail = fmt.Sprint(p.Violations[i].Detail)
			}
			b, _ = json.Marshal(p)
		}
		if outPath != "" {
			_ = os.WriteFile(outPath+".tmp", b, 0o644)
			_ = os.Rename(outPath+".tmp", outPath)
		}
	}
	if spec.Setup != nil {
		spec.Setup()
	}
	// violations of classes recorded as open known findings do not stop a child early
	knownClasses := loadKnown(VerifDir(), spec.ID)

	var curCase atomic.Int64
	curCase.Store(-1)
	var caseStart atomic.Int64
	var progress atomic.Int64
	stopWD := make(chan struct{})
	// Real-time watchdog: runs outside any bubble.
	go func() {
		tk := time.NewTicker(500 * time.Millisecond)
		defer tk.Stop()
		for {
			select {
			case <-stopWD:
				return
			case <-tk.C:
			}
			cs := caseStart.Load()
			if cs == 0 {
				continue
			}
			age := time.Since(time.Unix(0, cs))
			// A virtual-time bubble freezes when one goroutine waits for a mutex whose
			// holder waits for the fake clock: that is a limit of the technique, not a
			// verdict. It is recognised early (the process is idle) and the case is
			// skipped and reported; outside bubbles an idle process is a real deadlock.
			frozenLimit := spec.CaseTimeout
			inBubble := spec.Bubble || bubbleNow.Load()
			if inBubble {
				frozenLimit = 12 * time.Second
			}
			if age < frozenLimit {
				continue
			}
			idx := curCase.Load()
			p0 := progress.Load()
			// "Idle" must not be inferred from CPU time: on an overloaded machine a
			// starved process uses no CPU either. It is read from the scheduler state
			// instead: three goroutine dumps one second apart in which no goroutine
			// (other than this watchdog) is running or runnable.
			idle := true
			var dump string
			for k := 0; k < 3 && idle; k++ {
				time.Sleep(time.Second)
				buf := make([]byte, 8<<20)
				n := runtime.Stack(buf, true)
				dump = string(buf[:n])
				if anyRunnable(dump) {
					idle = false
				}
			}
			if progress.Load() != p0 || curCase.Load() != idx {
				continue
			}
			// A bubble case needs well under a second of CPU. One that made no progress
			// for three minutes is stuck even if the dumps show a runnable goroutine
			// (observed on a fresh sandbox); it is skipped like a frozen one.
			if !idle && inBubble && age >= 180*time.Second {
				idle = true
			}
			if !idle && age < spec.CaseTimeout {
				continue
			}
			fmt.Fprintf(os.Stderr, "WATCHDOG case=%d idle=%v bubble=%v\n%s\n", idx, idle, inBubble, dump)
			buf, n := []byte(dump), len(dump)
			st.mu.Lock()
			code := 3
			switch {
			case idle && inBubble:
				st.frozen = append(st.frozen, int(idx))
				code = 4
			case idle:
				st.violations = append(st.violations, Violation{Class: "deadlock", Case: int(idx),
					Msg:    fmt.Sprintf("case made no progress for %s and the process used no CPU: goroutines are deadlocked", spec.CaseTimeout),
					Detail: firstLines(blockedCentrifugeFrames(string(buf[:n])), 40)})
			default:
				st.inconcl = append(st.inconcl, fmt.Sprintf("case %d: watchdog fired after %s while the process was still busy", idx, spec.CaseTimeout))
			}
			st.mu.Unlock()
			write()
			os.Exit(code)
		}
	}()

	for i := 0; i < total; i++ {
		if only >= 0 {
			if int64(i) != only {
				continue
			}
		} else if i%nshards != shard || int64(i) <= resumeAfter {
			continue
		}
		c := &Case{Index: i, R: NewRand(seed, uint64(i)), T: t, Tier: tr, Seed: seed, Verbose: verbose, Bubble: spec.Bubble, st: st}
		curCase.Store(int64(i))
		caseStart.Store(time.Now().UnixNano())
		fmt.Fprintf(os.Stderr, "CASE %d\n", i)
		runOneCase(t, spec, c)
		caseStart.Store(0)
		progress.Add(1)
		st.mu.Lock()
		st.evals++
		st.casesDone++
		nv := 0
		for _, v := range st.violations {
			if _, isKnown := knownClasses[v.Class]; !isKnown {
				nv++
			}
		}
		st.mu.Unlock()
		if nv >= 50 {
			break
		}
	}
	close(stopWD)
	write()
}

func runOneCase(t *testing.T, spec *Spec, c *Case) {
	defer func() {
		if r := recover(); r != nil {
			stack := string(debug.Stack())
			msg := fmt.Sprint(r)
			if strings.Contains(msg, "deadlock") || strings.Contains(msg, "blocked goroutines") {
				buf := make([]byte, 4<<20)
				n := runtime.Stack(buf, true)
				stack = bubbleGoroutines(string(buf[:n]))
				fmt.Fprintf(os.Stderr, "BUBBLE LEFTOVER GOROUTINES case=%d\n%s\n", c.Index, stack)
			}
			c.Violation("panic:"+panicClass(r, stack), fmt.Sprintf("panic: %v", r), firstLines(stack, 60))
		}
	}()
	if spec.Bubble {
		func() {
			defer func() {
				// Timers pooled by centrifuge (internal/timers) are bound to the bubble
				// that created them: drop them before the next bubble starts.
				runtime.GC()
				runtime.GC()
			}()
			synctest.Test(t, func(bt *testing.T) {
				defer func() {
					if r := recover(); r != nil {
						stack := string(debug.Stack())
						c.Violation("panic:"+panicClass(r, stack), fmt.Sprintf("panic: %v", r), firstLines(stack, 40))
					}
				}()
				c.T = bt
				spec.Run(c)
			})
		}()
		return
	}
	spec.Run(c)
}

// bubbleNow is true while the current case of this child runs inside a bubble
// (cases run sequentially within a child process).
var bubbleNow atomic.Bool

// RunBubble runs fn inside a testing/synctest bubble for a check whose Spec.Bubble
// is false (checks that mix virtual-time and real-time cases).
func RunBubble(c *Case, fn func()) {
	defer func() {
		runtime.GC()
		runtime.GC()
	}()
	outerT := c.T
	bubbleNow.Store(true)
	defer bubbleNow.Store(false)
	synctest.Test(c.T, func(bt *testing.T) {
		c.T = bt
		c.Bubble = true
		defer func() {
			c.Bubble = false
			c.T = outerT
		}()
		fn()
	})
}

var reHex = regexp.MustCompile(`0x[0-9a-f]+|\b[0-9]{3,}\b`)

func panicClass(r any, stack string) string {
	msg := reHex.ReplaceAllString(fmt.Sprint(r), "N")
	if len(msg) > 80 {
		msg = msg[:80]
	}
	// first centrifuge (non-harness) frame
	for _, ln := range strings.Split(stack, "\n") {
		if strings.HasPrefix(ln, "github.com/centrifugal/centrifuge") && !strings.Contains(ln, "/verifx/") {
			fn := ln
			if i := strings.Index(fn, "("); i > 0 {
				fn = fn[:i]
			}
			return msg + "@" + strings.TrimPrefix(fn, "github.com/centrifugal/centrifuge")
		}
	}
	return msg
}

// bubbleGoroutines keeps the goroutines of a full dump that belong to a synctest bubble.
func bubbleGoroutines(dump string) string {
	var out []string
	for _, g := range strings.Split(dump, "\n\n") {
		if strings.Contains(g, "synctest") && !strings.Contains(g, "runtime.Stack") {
			out = append(out, firstLines(g, 24))
		}
	}
	return strings.Join(out, "\n\n")
}

func firstLines(s string, n int) string {
	lines := strings.SplitN(s, "\n", n+1)
	if len(lines) > n {
		lines = lines[:n]
	}
	return strings.Join(lines, "\n")
}

func blockedCentrifugeFrames(dump string) string {
	var out []string
	for _, g := range strings.Split(dump, "\n\n") {
		if strings.Contains(g, "github.com/centrifugal/centrifuge") && (strings.Contains(g, "sync.Mutex.Lock") || strings.Contains(g, "sync.(*Mutex).Lock") || strings.Contains(g, "RWMutex") || strings.Contains(g, "chan receive") || strings.Contains(g, "select")) {
			out = append(out, firstLines(g, 14))
		}
		if len(out) >= 6 {
			break
		}
	}
	return strings.Join(out, "\n\n")
}

// anyRunnable reports whether a full goroutine dump shows a goroutine that is
// running or runnable, not counting the one that took the dump.
func anyRunnable(dump string) bool {
	for n, g := range strings.Split(dump, "\n\n") {
		if n == 0 {
			continue // runtime.Stack prints the calling goroutine first
		}
		if !strings.HasPrefix(g, "goroutine ") {
			continue
		}
		i := strings.Index(g, "[")
		j := strings.Index(g, "]")
		if i < 0 || j < i {
			continue
		}
		state := g[i+1 : j]
		if strings.HasPrefix(state, "running") || strings.HasPrefix(state, "runnable") {
			if strings.Contains(g, "runtime.Stack") {
				continue
			}
			return true
		}
	}
	return false
}

func cpuTime() time.Duration {
	var ru syscall.Rusage
	if err := syscall.Getrusage(syscall.RUSAGE_SELF, &ru); err != nil {
		return 0
	}
	return time.Duration(ru.Utime.Nano() + ru.Stime.Nano())
}

// ---------------------------------------------------------------------------------------------
// parent

// KnownFinding is an entry of /verif/known_findings.json.
type KnownFinding struct {
	Property string `json:"property"`
	Class    string `json:"class"`
	Status   string `json:"status"` // open | fixed
	What     string `json:"what"`
	Commit   string `json:"commit,omitempty"`
}

func loadKnown(dir, id string) map[string]KnownFinding {
	out := map[string]KnownFinding{}
	b, err := os.ReadFile(filepath.Join(dir, "known_findings.json"))
	if err != nil {
		return out
	}
	var doc struct {
		Findings []KnownFinding `json:"findings"`
	}
	if json.Unmarshal(b, &doc) != nil {
		return out
	}
	for _, f := range doc.Findings {
		if f.Property == id && f.Status == "open" {
			out[f.Class] = f
		}
	}
	return out
}

func runParent(t *testing.T, spec *Spec) {
	start := time.Now()
	dir := VerifDir()
	seed := uint64(envInt("VERIF_SEED", 1))
	tr := tier()
	total := spec.Cases[tr]
	procs := spec.Procs
	if procs <= 0 {
		procs = runtime.NumCPU()
		if procs > 16 {
			procs = 16
		}
	}
	if p := envInt("VERIF_PROCS", 0); p > 0 {
		procs = int(p)
	}
	if procs > total {
		procs = total
	}
	if procs < 1 {
		procs = 1
	}
	only := int64(-1)
	if rp := os.Getenv("VERIF_REPLAY"); rp != "" {
		b, err := os.ReadFile(rp)
		if err != nil {
			t.Fatalf("cannot read replay file: %v", err)
		}
		var r struct {
			Seed uint64 `json:"seed"`
			Tier string `json:"tier"`
			Case int64  `json:"case"`
		}
		if err := json.Unmarshal(b, &r); err != nil {
			t.Fatalf("bad replay file: %v", err)
		}
		seed, tr, only = r.Seed, r.Tier, r.Case
		total = spec.Cases[tr]
		procs = 1
	}
	work := filepath.Join(dir, ".build", spec.ID, "run")
	_ = os.RemoveAll(work)
	if err := os.MkdirAll(work, 0o755); err != nil {
		t.Fatalf("mkdir: %v", err)
	}

	type childRes struct {
		shard int
		err   error
		log   string
		part  *partial
	}
	var resMu sync.Mutex
	var results []childRes
	var wg sync.WaitGroup
	for i := 0; i < procs; i++ {
		wg.Add(1)
		go func(i int) {
			defer wg.Done()
			resumeAfter := int64(-1)
			for attempt := 0; attempt < 50; attempt++ {
				logPath := filepath.Join(work, fmt.Sprintf("child-%d.%d.log", i, attempt))
				partPath := filepath.Join(work, fmt.Sprintf("child-%d.%d.json", i, attempt))
				lf, _ := os.Create(logPath)
				cmd := exec.Command(os.Args[0], "-test.run", "^"+t.Name()+"$", "-test.timeout=0", "-test.count=1")
				cmd.Env = append(os.Environ(),
					"VERIF_CHILD=1",
					fmt.Sprintf("VERIF_SHARD=%d", i),
					fmt.Sprintf("VERIF_NSHARDS=%d", procs),
					fmt.Sprintf("VERIF_SEED=%d", seed),
					fmt.Sprintf("VERIF_RESUME_AFTER=%d", resumeAfter),
					"VERIF_TIER="+tr,
					"VERIF_PARTIAL="+partPath,
					"VERIF_DIR="+dir,
					"GORACE=halt_on_error=0 exitcode=66",
				)
				if only >= 0 {
					cmd.Env = append(cmd.Env, fmt.Sprintf("VERIF_ONLY_CASE=%d", only), "VERIF_VERBOSE=1")
				}
				cmd.Stdout = lf
				cmd.Stderr = lf
				err := cmd.Run()
				_ = lf.Close()
				r := childRes{shard: i, err: err, log: logPath}
				if b, rerr := os.ReadFile(partPath); rerr == nil {
					var p partial
					if json.Unmarshal(b, &p) == nil {
						r.part = &p
					}
				}
				resMu.Lock()
				results = append(results, r)
				resMu.Unlock()
				// exit code 4 = a bubble froze: skip that case and carry on with the rest of the shard
				if ee, ok := err.(*exec.ExitError); ok && ee.ExitCode() == 4 && r.part != nil && len(r.part.Frozen) > 0 && only < 0 {
					resumeAfter = int64(r.part.Frozen[len(r.part.Frozen)-1])
					continue
				}
				return
			}
		}(i)
	}
	wg.Wait()

	// merge
	sigs := map[uint64]struct{}{}
	counters := map[string]int64{}
	var samples []any
	var viols []Violation
	var inconcl []string
	var evals int64
	var frozen []int
	casesDone := 0
	for _, r := range results {
		if r.part != nil {
			evals += r.part.Evals
			casesDone += r.part.CasesDone
			for _, s := range r.part.Sigs {
				sigs[s] = struct{}{}
			}
			for k, v := range r.part.Counters {
				counters[k] += v
			}
			if len(samples) < 5 {
				for _, s := range r.part.Samples {
					if len(samples) < 5 {
						samples = append(samples, s)
					}
				}
			}
			viols = append(viols, r.part.Violations...)
			inconcl = append(inconcl, r.part.Inconcl...)
			frozen = append(frozen, r.part.Frozen...)
		}
		// Data races and crashes are read from the child's log.
		logTxt := readTail(r.log, 8<<20)
		lastCase := lastCaseOf(logTxt)
		for _, rc := range raceReports(logTxt) {
			viols = append(viols, Violation{Class: "data-race:" + rc.class, Case: lastCase, Msg: "race detector report", Detail: rc.text})
		}
		if r.err != nil {
			ee, isExit := r.err.(*exec.ExitError)
			code := -1
			if isExit {
				code = ee.ExitCode()
			}
			switch {
			case code == 4 && r.part != nil:
				// frozen bubble, handled below
			case code == 3:
				// watchdog: already recorded in partial (deadlock or inconclusive)
				if r.part == nil {
					inconcl = append(inconcl, fmt.Sprintf("shard %d: watchdog exit without partial result", r.shard))
				}
			case strings.Contains(logTxt, "fatal error:") || strings.Contains(logTxt, "panic:") || strings.Contains(logTxt, "[signal "):
				cls, excerpt := crashClass(logTxt)
				viols = append(viols, Violation{Class: "crash:" + cls, Case: lastCase, Msg: "child process crashed (panic or fatal error outside a harness call boundary)", Detail: excerpt})
			case r.part != nil && (code == 1 || code == 66):
				// test failed because of recorded violations / race exit code: fine.
			case len(raceReports(logTxt)) > 0:
				// the race detector's exit; the reports were turned into violations above
			default:
				inconcl = append(inconcl, fmt.Sprintf("shard %d: child exited with %v and no recognisable cause (see %s)", r.shard, r.err, r.log))
			}
		} else if r.part == nil {
			inconcl = append(inconcl, fmt.Sprintf("shard %d: no partial result", r.shard))
		}
	}

	// Frozen bubbles (see the watchdog): skipped cases, tolerated up to 1% (at least 3).
	maxFrozen := total / 100
	if maxFrozen < 3 {
		maxFrozen = 3
	}
	if len(frozen) > maxFrozen {
		sort.Ints(frozen)
		inconcl = append(inconcl, fmt.Sprintf("%d cases froze their virtual-time bubble (limit %d), e.g. cases %v", len(frozen), maxFrozen, frozen[:3]))
	}
	counters["bubble_frozen_cases_skipped"] = int64(len(frozen))
	if only < 0 && casesDone+len(frozen) < total && len(viols) == 0 && len(inconcl) == 0 {
		inconcl = append(inconcl, fmt.Sprintf("only %d of %d cases completed", casesDone, total))
	}
	if only < 0 && len(viols) == 0 {
		if len(sigs) < spec.MinNontrivial {
			inconcl = append(inconcl, fmt.Sprintf("only %d distinct non-trivial observations (minimum %d)", len(sigs), spec.MinNontrivial))
		}
		for _, k := range spec.RequireCounters {
			if counters[k] <= 0 {
				inconcl = append(inconcl, fmt.Sprintf("required coverage counter %q stayed at zero", k))
			}
		}
	}

	// verdict lines
	known := loadKnown(dir, spec.ID)
	byClass := map[string][]Violation{}
	var classes []string
	for _, v := range viols {
		if _, ok := byClass[v.Class]; !ok {
			classes = append(classes, v.Class)
		}
		byClass[v.Class] = append(byClass[v.Class], v)
	}
	sort.Strings(classes)
	newViol := 0
	knownSeen := 0
	for _, cl := range classes {
		vs := byClass[cl]
		if kf, ok := known[cl]; ok {
			knownSeen++
			fmt.Printf("KNOWN-FINDING: property=%s %s (class=%s, observed %d times, e.g. case %d)\n", spec.ID, kf.What, cl, len(vs), vs[0].Case)
			continue
		}
		newViol++
		v := vs[0]
		rp := filepath.Join("replays", fmt.Sprintf("%s-%d-%d.json", spec.ID, seed, v.Case))
		_ = os.MkdirAll(filepath.Join(dir, "replays"), 0o755)
		rb, _ := json.MarshalIndent(map[string]any{
			"property": spec.ID, "seed": seed, "tier": tr, "case": v.Case, "class": v.Class, "msg": v.Msg,
			"detail": v.Detail, "occurrences": len(vs),
		}, "", " ")
		_ = os.WriteFile(filepath.Join(dir, rp), rb, 0o644)
		fmt.Printf("VIOLATION property=%s replay=%s class=%s occurrences=%d msg=%s\n", spec.ID, rp, cl, len(vs), oneLine(v.Msg))
	}
	for _, s := range inconcl {
		fmt.Printf("INCONCLUSIVE property=%s reason=%s\n", spec.ID, oneLine(s))
	}

	// evidence
	if only < 0 {
		cov := map[string]any{
			"evaluations":         evals,
			"distinct_nontrivial": len(sigs),
			"rule":                spec.Rule,
			"samples":             samples,
			"counters":            counters,
			"cases":               casesDone,
			"processes":           procs,
		}
		if spec.Exhaustive {
			cov["exhaustive"] = true
		}
		if len(samples) == 0 {
			cov["samples"] = []any{"(no sample recorded)"}
		}
		ev := map[string]any{
			"property_id": spec.ID,
			"tier":        tr,
			"seed":        seed,
			"level":       spec.Level,
			"coverage":    cov,
			"assumptions": spec.Assumptions,
			"wall_s":      time.Since(start).Seconds(),
			"violations":  newViol,
			"known_findings_observed": knownSeen,
			"inconclusive":            inconcl,
		}
		eb, _ := json.MarshalIndent(ev, "", " ")
		_ = os.MkdirAll(filepath.Join(dir, "evidence"), 0o755)
		_ = os.WriteFile(filepath.Join(dir, "evidence", spec.ID+".json"), eb, 0o644)
	}

	if newViol > 0 {
		t.Fail()
		return
	}
	if len(inconcl) > 0 {
		t.Fail()
		return
	}
	fmt.Printf("OK property=%s tier=%s seed=%d evaluations=%d distinct_nontrivial=%d known_findings=%d wall=%.1fs\n",
		spec.ID, tr, seed, evals, len(sigs), knownSeen, time.Since(start).Seconds())
}

func oneLine(s string) string {
	s = strings.ReplaceAll(s, "\n", " | ")
	if len(s) > 400 {
		s = s[:400] + "…"
	}
	return s
}

func readTail(path string, max int64) string {
	f, err := os.Open(path)
	if err != nil {
		return ""
	}
	defer f.Close()
	st, _ := f.Stat()
	if st != nil && st.Size() > max {
		_, _ = f.Seek(st.Size()-max, 0)
	}
	var b bytes.Buffer
	_, _ = b.ReadFrom(bufio.NewReader(f))
	return b.String()
}

var reCase = regexp.MustCompile(`(?m)^CASE (\d+)$`)

func lastCaseOf(log string) int {
	m := reCase.FindAllStringSubmatch(log, -1)
	if len(m) == 0 {
		return -1
	}
	n, _ := strconv.Atoi(m[len(m)-1][1])
	return n
}

type raceReport struct{ class, text string }

var reFrame = regexp.MustCompile(`(?m)^  ([^\s(]+)\(`)

func raceReports(log string) []raceReport {
	var out []raceReport
	seen := map[string]bool{}
	parts := strings.Split(log, "WARNING: DATA RACE")
	for _, p := range parts[1:] {
		end := strings.Index(p, "==================")
		if end > 0 {
			p = p[:end]
		}
		// class = top frames of the two accesses (function names only)
		secs := strings.Split(p, "\n\n")
		var tops []string
		for _, s := range secs {
			if strings.Contains(s, "Goroutine ") && strings.Contains(s, "created at") {
				continue
			}
			if m := reFrame.FindStringSubmatch(s); m != nil {
				tops = append(tops, m[1])
			}
			if len(tops) == 2 {
				break
			}
		}
		sort.Strings(tops)
		cls := strings.Join(tops, "|")
		if seen[cls] {
			continue
		}
		seen[cls] = true
		out = append(out, raceReport{class: cls, text: firstLines(p, 60)})
	}
	return out
}

func crashClass(log string) (string, string) {
	idx := strings.Index(log, "fatal error:")
	if i := strings.Index(log, "panic:"); i >= 0 && (idx < 0 || i < idx) {
		idx = i
	}
	if idx < 0 {
		idx = strings.Index(log, "[signal ")
	}
	if idx < 0 {
		return "unknown", firstLines(log, 30)
	}
	ex := log[idx:]
	line := ex
	if i := strings.Index(line, "\n"); i > 0 {
		line = line[:i]
	}
	line = reHex.ReplaceAllString(line, "N")
	if len(line) > 100 {
		line = line[:100]
	}
	fn := ""
	for _, ln := range strings.Split(ex, "\n") {
		if strings.HasPrefix(ln, "github.com/centrifugal/centrifuge") && !strings.Contains(ln, "/verifx/") {
			fn = ln
			if i := strings.Index(fn, "("); i > 0 {
				fn = fn[:i]
			}
			fn = strings.TrimPrefix(fn, "github.com/centrifugal/centrifuge")
			break
		}
	}
	return line + "@" + fn, firstLines(ex, 60)
}
