package kit

import (
	"math/rand/v2"
)

// Rand is the only source of randomness in checks: it is derived from
// (VERIF_SEED, case index) so that every case is reproducible on its own.
type Rand struct{ *rand.Rand }

func NewRand(seed uint64, stream uint64) *Rand {
	return &Rand{rand.New(rand.NewPCG(seed^0x9e3779b97f4a7c15, stream*0xbf58476d1ce4e5b9+1))}
}

func (r *Rand) Intn(n int) int {
	if n <= 0 {
		return 0
	}
	return r.IntN(n)
}

// Range returns an int in [lo, hi].
func (r *Rand) Range(lo, hi int) int {
	if hi <= lo {
		return lo
	}
	return lo + r.IntN(hi-lo+1)
}

func (r *Rand) Bool() bool { return r.IntN(2) == 0 }

// Chance returns true with probability num/den.
func (r *Rand) Chance(num, den int) bool { return r.IntN(den) < num }

func Pick[T any](r *Rand, xs []T) T { return xs[r.IntN(len(xs))] }

func (r *Rand) Bytes(n int) []byte {
	b := make([]byte, n)
	for i := range b {
		b[i] = byte(r.IntN(256))
	}
	return b
}

func Shuffle[T any](r *Rand, xs []T) {
	r.Shuffle(len(xs), func(i, j int) { xs[i], xs[j] = xs[j], xs[i] })
}
