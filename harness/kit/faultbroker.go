package kit

import (
	"context"
	"errors"
	"sync"

	"github.com/centrifugal/centrifuge"
)

// FaultAction is what the fault broker does with one PUB/SUB delivery.
type FaultAction int

const (
	Pass FaultAction = iota
	Drop
	Dup
	// Hold keeps the delivery back and releases it right after the next delivery
	// on the same channel (reordering), or at Flush.
	Hold
)

func (a FaultAction) String() string {
	return [...]string{"pass", "drop", "dup", "hold"}[a]
}

// BrokerCall is one recorded Subscribe/Unsubscribe call on the broker.
type BrokerCall struct {
	Seq     int64
	Op      string // "subscribe" | "unsubscribe"
	Channel string
	Err     bool
	// LocalSubs is Hub.NumSubscribers(channel) sampled inside the call (the node
	// holds its per-channel subscription lock around broker calls).
	LocalSubs int
}

// Delivery is one recorded PUB/SUB delivery decision.
type Delivery struct {
	Seq     int64
	Channel string
	Offset  uint64
	Action  FaultAction
}

// FaultBroker wraps the real MemoryBroker and sits between it and the node's
// BrokerEventHandler, so that deliveries can be dropped, duplicated or reordered
// the way an unreliable PUB/SUB layer would, and Subscribe/Unsubscribe can fail.
// It deliberately does not claim reliable delivery.
type FaultBroker struct {
	W     *World
	Node  *centrifuge.Node
	Inner *centrifuge.MemoryBroker

	mu      sync.Mutex
	handler centrifuge.BrokerEventHandler
	// Plan decides the action for a delivery; nil = Pass. Called with mu held, in
	// delivery order, so decisions are deterministic given the delivery order.
	Plan func(ch string, pub *centrifuge.Publication, sp centrifuge.StreamPosition) FaultAction
	// FailSubscribe / FailUnsubscribe decide whether the n-th such call for ch fails.
	FailSubscribe   func(ch string, nth int) bool
	FailUnsubscribe func(ch string, nth int) bool
	held            map[string][]heldDelivery
	Calls           []BrokerCall
	Deliveries      []Delivery
	subCount        map[string]int
	unsubCount      map[string]int
}

type heldDelivery struct {
	pub      *centrifuge.Publication
	sp       centrifuge.StreamPosition
	useDelta bool
	prev     *centrifuge.Publication
}

func NewFaultBroker(w *World, n *centrifuge.Node) *FaultBroker {
	inner, err := centrifuge.NewMemoryBroker(n, centrifuge.MemoryBrokerConfig{})
	if err != nil {
		panic(err)
	}
	return &FaultBroker{W: w, Node: n, Inner: inner, held: map[string][]heldDelivery{}, subCount: map[string]int{}, unsubCount: map[string]int{}}
}

var errInjected = errors.New("injected broker error")

func (b *FaultBroker) RegisterBrokerEventHandler(h centrifuge.BrokerEventHandler) error {
	b.mu.Lock()
	b.handler = h
	b.mu.Unlock()
	return b.Inner.RegisterBrokerEventHandler(b)
}

func (b *FaultBroker) Close(ctx context.Context) error { return b.Inner.Close(ctx) }

func (b *FaultBroker) Subscribe(chs ...string) error {
	for _, ch := range chs {
		b.mu.Lock()
		b.subCount[ch]++
		nth := b.subCount[ch]
		fail := b.FailSubscribe != nil && b.FailSubscribe(ch, nth)
		b.Calls = append(b.Calls, BrokerCall{Seq: b.W.Seq(), Op: "subscribe", Channel: ch, Err: fail, LocalSubs: b.Node.Hub().NumSubscribers(ch)})
		b.mu.Unlock()
		if fail {
			return errInjected
		}
	}
	return b.Inner.Subscribe(chs...)
}

func (b *FaultBroker) Unsubscribe(chs ...string) error {
	for _, ch := range chs {
		b.mu.Lock()
		b.unsubCount[ch]++
		nth := b.unsubCount[ch]
		fail := b.FailUnsubscribe != nil && b.FailUnsubscribe(ch, nth)
		b.Calls = append(b.Calls, BrokerCall{Seq: b.W.Seq(), Op: "unsubscribe", Channel: ch, Err: fail, LocalSubs: b.Node.Hub().NumSubscribers(ch)})
		b.mu.Unlock()
		if fail {
			return errInjected
		}
	}
	return b.Inner.Unsubscribe(chs...)
}

func (b *FaultBroker) Publish(ch string, data []byte, opts centrifuge.PublishOptions) (centrifuge.PublishResult, error) {
	return b.Inner.Publish(ch, data, opts)
}
func (b *FaultBroker) PublishJoin(ch string, info *centrifuge.ClientInfo) error {
	return b.Inner.PublishJoin(ch, info)
}
func (b *FaultBroker) PublishLeave(ch string, info *centrifuge.ClientInfo) error {
	return b.Inner.PublishLeave(ch, info)
}
func (b *FaultBroker) History(ch string, opts centrifuge.HistoryOptions) ([]*centrifuge.Publication, centrifuge.StreamPosition, error) {
	return b.Inner.History(ch, opts)
}
func (b *FaultBroker) RemoveHistory(ch string) error { return b.Inner.RemoveHistory(ch) }

// HandlePublication is called by the inner broker (under its per-channel publish lock).
func (b *FaultBroker) HandlePublication(ch string, pub *centrifuge.Publication, sp centrifuge.StreamPosition, useDelta bool, prev *centrifuge.Publication) error {
	b.mu.Lock()
	h := b.handler
	act := Pass
	if b.Plan != nil {
		act = b.Plan(ch, pub, sp)
	}
	b.Deliveries = append(b.Deliveries, Delivery{Seq: b.W.Seq(), Channel: ch, Offset: pub.Offset, Action: act})
	var release []heldDelivery
	if act != Hold {
		release = b.held[ch]
		delete(b.held, ch)
	} else {
		b.held[ch] = append(b.held[ch], heldDelivery{pub, sp, useDelta, prev})
	}
	b.mu.Unlock()
	var err error
	switch act {
	case Pass:
		err = h.HandlePublication(ch, pub, sp, useDelta, prev)
	case Dup:
		err = h.HandlePublication(ch, pub, sp, useDelta, prev)
		_ = h.HandlePublication(ch, pub, sp, useDelta, prev)
	case Drop, Hold:
	}
	for _, d := range release {
		_ = h.HandlePublication(ch, d.pub, d.sp, d.useDelta, d.prev)
	}
	return err
}

// Flush releases every held delivery (call when faults stop).
func (b *FaultBroker) Flush() {
	b.mu.Lock()
	h := b.handler
	held := b.held
	b.held = map[string][]heldDelivery{}
	b.mu.Unlock()
	for ch, ds := range held {
		for _, d := range ds {
			_ = h.HandlePublication(ch, d.pub, d.sp, d.useDelta, d.prev)
		}
	}
}

func (b *FaultBroker) HandleJoin(ch string, info *centrifuge.ClientInfo) error {
	b.mu.Lock()
	h := b.handler
	b.mu.Unlock()
	return h.HandleJoin(ch, info)
}

func (b *FaultBroker) HandleLeave(ch string, info *centrifuge.ClientInfo) error {
	b.mu.Lock()
	h := b.handler
	b.mu.Unlock()
	return h.HandleLeave(ch, info)
}

// Snapshot returns copies of the recorded calls and deliveries.
func (b *FaultBroker) Snapshot() ([]BrokerCall, []Delivery) {
	b.mu.Lock()
	defer b.mu.Unlock()
	return append([]BrokerCall(nil), b.Calls...), append([]Delivery(nil), b.Deliveries...)
}
