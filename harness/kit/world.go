package kit

import (
	"context"
	"encoding/json"
	"fmt"
	"runtime"
	"strings"
	"sync"
	"sync/atomic"
	"testing/synctest"
	"time"

	"github.com/centrifugal/centrifuge"
	"github.com/centrifugal/protocol"
	"github.com/prometheus/client_golang/prometheus"
)

// World is the environment of one case: a logical clock shared by every
// recorder (so that events recorded at different boundaries are totally ordered
// in the order they were observed) and the nodes created for the case.
type World struct {
	C     *Case
	start time.Time
	seq   atomic.Int64

	mu    sync.Mutex
	nodes []*centrifuge.Node
	Logs  []string // library log entries at error level (for diagnostics only)
}

func NewWorld(c *Case) *World {
	return &World{C: c, start: time.Now()}
}

// Seq returns the next logical sequence number.
func (w *World) Seq() int64 { return w.seq.Add(1) }

// Now is the (virtual, inside a bubble) time since the world was created.
func (w *World) Now() time.Duration { return time.Since(w.start) }

// Settle waits until every other goroutine of the bubble is durably blocked
// (exact quiescence). Outside a bubble it only yields.
func (w *World) Settle() {
	if w.C != nil && w.C.Bubble {
		synctest.Wait()
		return
	}
	Yield(50)
}

// NodeOpt customises a node before Run.
type NodeOpt func(cfg *centrifuge.Config)

// NewNode creates a node with a private metrics registry and quiet logging;
// setup runs before node.Run() (install handlers, brokers).
func (w *World) NewNode(cfg centrifuge.Config, setup func(n *centrifuge.Node)) (*centrifuge.Node, *prometheus.Registry) {
	reg := prometheus.NewRegistry()
	cfg.Metrics.RegistererGatherer = reg
	if cfg.LogHandler == nil {
		cfg.LogLevel = centrifuge.LogLevelError
		cfg.LogHandler = func(e centrifuge.LogEntry) {
			w.mu.Lock()
			if len(w.Logs) < 200 {
				w.Logs = append(w.Logs, fmt.Sprintf("%s %v", e.Message, e.Fields))
			}
			w.mu.Unlock()
		}
	}
	n, err := centrifuge.New(cfg)
	if err != nil {
		panic(fmt.Sprintf("kit: centrifuge.New: %v", err))
	}
	if setup != nil {
		setup(n)
	}
	if err := n.Run(); err != nil {
		panic(fmt.Sprintf("kit: node.Run: %v", err))
	}
	w.mu.Lock()
	w.nodes = append(w.nodes, n)
	w.mu.Unlock()
	return n, reg
}

// Shutdown stops every node of the world (all their goroutines exit).
func (w *World) Shutdown() {
	w.mu.Lock()
	nodes := w.nodes
	w.nodes = nil
	w.mu.Unlock()
	if w.C != nil && w.C.Bubble && len(nodes) > 0 {
		// Channel mediums with a queue own a goroutine that only the deferred
		// broker-unsubscribe job stops, and Node.Shutdown drops pending jobs. Close
		// the remaining connections first and give those jobs their virtual second.
		for _, n := range nodes {
			for _, cl := range n.Hub().Connections() {
				cl.Disconnect(centrifuge.DisconnectShutdown)
			}
		}
		time.Sleep(3 * time.Second)
		synctest.Wait()
	}
	for _, n := range nodes {
		clearHook(n)
		_ = n.Shutdown(context.Background())
	}
	if w.C != nil && w.C.Bubble && len(nodes) > 0 {
		// Deferred broker-unsubscribe jobs sleep up to 1s (plus 500ms after a failed
		// attempt) and are not interrupted by Shutdown; in a bubble every goroutine
		// must have exited before the case returns. Virtual time: costs nothing.
		time.Sleep(5 * time.Second)
		synctest.Wait()
	}
}

// ---------------------------------------------------------------------------------------------
// hooks: one process-wide dispatcher, per-node callbacks.

var (
	hookOnce sync.Once
	hookMap  sync.Map // *centrifuge.Node -> func(point string, c *centrifuge.Client, ch string)
)

// SetHook installs a callback for the yield points of node n.
func SetHook(n *centrifuge.Node, f func(point string, c *centrifuge.Client, ch string)) {
	hookOnce.Do(func() {
		centrifuge.VerifSetHook(func(point string, node *centrifuge.Node, c *centrifuge.Client, ch string) {
			if node == nil {
				// points without a node (the connection writer): one process-wide handler,
				// set per case (cases of one process run one after another)
				if g := nodelessHook.Load(); g != nil {
					(*g)(point)
				}
				return
			}
			if f, ok := hookMap.Load(node); ok {
				f.(func(string, *centrifuge.Client, string))(point, c, ch)
			}
		})
	})
	hookMap.Store(n, f)
}

func clearHook(n *centrifuge.Node) { hookMap.Delete(n); nodelessHook.Store(nil) }

var nodelessHook atomic.Pointer[func(point string)]

// SetNodelessHook installs the handler for yield points that carry neither a node nor
// a client ("writer.afterDrain"). It is removed when a world shuts down. SetHook must
// have been called in the process (it installs the dispatcher).
func SetNodelessHook(n *centrifuge.Node, f func(point string)) {
	SetHook(n, func(string, *centrifuge.Client, string) {})
	nodelessHook.Store(&f)
}

// SpinUntil busy-yields (never sleeps) until cond() holds or maxYields yields
// were made. For use at yield points that lie inside a lock-protected window.
func SpinUntil(cond func() bool, maxYields int) bool {
	for i := 0; i < maxYields; i++ {
		if cond() {
			return true
		}
		runtime.Gosched()
	}
	return cond()
}

// Yield gives other goroutines a chance to run, n times, without sleeping.
func Yield(n int) {
	for i := 0; i < n; i++ {
		runtime.Gosched()
	}
}

// ---------------------------------------------------------------------------------------------
// recording transport

// Frame is one message handed to the transport, decoded.
type Frame struct {
	Seq   int64
	At    time.Duration
	Reply *protocol.Reply // bidirectional: the reply (a push is Reply.Push with Id 0)
	Push  *protocol.Push  // the push (for bidirectional: Reply.Push)
	Raw   []byte
	// WriteCall numbers the Write/WriteMany call that carried this message, Batch
	// its size.
	WriteCall int
	Batch     int
	DecodeErr string
}

// TransportOpts configures a RecTransport.
type TransportOpts struct {
	Protocol      centrifuge.ProtocolType
	Unidirectional bool
	Emulation     bool
	DisabledPush  uint64
	PingPong      centrifuge.PingPongConfig
	// WriteDelay is slept (virtual time in a bubble) inside every write call.
	WriteDelay time.Duration
	// FailWriteAt makes the n-th write call (1-based) and all later ones fail.
	FailWriteAt int
	Name        string
}

// RecTransport implements centrifuge.Transport and records everything written.
type RecTransport struct {
	w    *World
	opts TransportOpts

	mu         sync.Mutex
	frames     []Frame
	writeCalls int
	closed     bool
	CloseSeq   int64
	CloseDisc  centrifuge.Disconnect
	closeCalls int
	block      chan struct{} // when non-nil, writes block until closed
	onFrame    func(f Frame)
}

func (w *World) NewTransport(o TransportOpts) *RecTransport {
	if o.Protocol == "" {
		o.Protocol = centrifuge.ProtocolTypeJSON
	}
	if o.Name == "" {
		o.Name = "rec"
	}
	return &RecTransport{w: w, opts: o}
}

func (t *RecTransport) Name() string                              { return t.opts.Name }
func (t *RecTransport) AcceptProtocol() string                    { return "" }
func (t *RecTransport) Protocol() centrifuge.ProtocolType         { return t.opts.Protocol }
func (t *RecTransport) ProtocolVersion() centrifuge.ProtocolVersion { return centrifuge.ProtocolVersion2 }
func (t *RecTransport) Unidirectional() bool                      { return t.opts.Unidirectional }
func (t *RecTransport) Emulation() bool                           { return t.opts.Emulation }
func (t *RecTransport) DisabledPushFlags() uint64                 { return t.opts.DisabledPush }
func (t *RecTransport) PingPongConfig() centrifuge.PingPongConfig { return t.opts.PingPong }

// Block makes subsequent writes block until Unblock.
func (t *RecTransport) Block() {
	t.mu.Lock()
	if t.block == nil {
		t.block = make(chan struct{})
	}
	t.mu.Unlock()
}

func (t *RecTransport) Unblock() {
	t.mu.Lock()
	if t.block != nil {
		close(t.block)
		t.block = nil
	}
	t.mu.Unlock()
}

// FailFromNow makes every write from now on fail (transport error injection).
func (t *RecTransport) FailFromNow() {
	t.mu.Lock()
	t.opts.FailWriteAt = t.writeCalls + 1
	t.mu.Unlock()
}

// OnFrame registers a callback invoked (outside the transport lock) for every recorded frame.
func (t *RecTransport) OnFrame(f func(Frame)) {
	t.mu.Lock()
	t.onFrame = f
	t.mu.Unlock()
}

func (t *RecTransport) decode(data []byte) Frame {
	f := Frame{Raw: append([]byte(nil), data...)}
	if t.opts.Unidirectional {
		var p protocol.Push
		var err error
		if t.opts.Protocol == centrifuge.ProtocolTypeJSON {
			err = json.Unmarshal(f.Raw, &p)
		} else {
			err = p.UnmarshalVT(f.Raw)
		}
		if err != nil {
			f.DecodeErr = err.Error()
		}
		f.Push = &p
		return f
	}
	var r protocol.Reply
	var err error
	if t.opts.Protocol == centrifuge.ProtocolTypeJSON {
		err = json.Unmarshal(f.Raw, &r)
	} else {
		err = r.UnmarshalVT(f.Raw)
	}
	if err != nil {
		f.DecodeErr = err.Error()
	}
	f.Reply = &r
	f.Push = r.Push
	return f
}

func (t *RecTransport) write(datas ...[]byte) error {
	t.mu.Lock()
	blk := t.block
	t.mu.Unlock()
	if blk != nil {
		<-blk
	}
	if t.opts.WriteDelay > 0 {
		time.Sleep(t.opts.WriteDelay)
	}
	t.mu.Lock()
	t.writeCalls++
	call := t.writeCalls
	if t.closed {
		t.mu.Unlock()
		return fmt.Errorf("transport closed")
	}
	if t.opts.FailWriteAt > 0 && call >= t.opts.FailWriteAt {
		t.mu.Unlock()
		return fmt.Errorf("injected write error")
	}
	var added []Frame
	for _, d := range datas {
		f := t.decode(d)
		f.Seq = t.w.Seq()
		f.At = t.w.Now()
		f.WriteCall = call
		f.Batch = len(datas)
		t.frames = append(t.frames, f)
		added = append(added, f)
	}
	cb := t.onFrame
	t.mu.Unlock()
	if cb != nil {
		for _, f := range added {
			cb(f)
		}
	}
	return nil
}

func (t *RecTransport) Write(data []byte) error        { return t.write(data) }
func (t *RecTransport) WriteMany(data ...[]byte) error { return t.write(data...) }

func (t *RecTransport) Close(d centrifuge.Disconnect) error {
	t.mu.Lock()
	t.closeCalls++
	if !t.closed {
		t.closed = true
		t.CloseSeq = t.w.Seq()
		t.CloseDisc = d
	}
	blk := t.block
	t.block = nil
	t.mu.Unlock()
	if blk != nil {
		close(blk)
	}
	return nil
}

// Frames returns a snapshot of the recorded frames.
func (t *RecTransport) Frames() []Frame {
	t.mu.Lock()
	defer t.mu.Unlock()
	return append([]Frame(nil), t.frames...)
}

// Closed reports whether Close was called, with which disconnect, and how often.
func (t *RecTransport) Closed() (bool, centrifuge.Disconnect, int) {
	t.mu.Lock()
	defer t.mu.Unlock()
	return t.closed, t.CloseDisc, t.closeCalls
}

// ---------------------------------------------------------------------------------------------
// connection driver

// Conn drives one client connection the way a transport reader goroutine does:
// commands are handed to Client.HandleCommand one at a time.
type Conn struct {
	W       *World
	T       *RecTransport
	Client  *centrifuge.Client
	CloseFn centrifuge.ClientCloseFunc
	rd      sync.Mutex // the "reader goroutine": one command at a time
	nextID  atomic.Uint32
}

// NewConn creates a client on node n over a recording transport.
func (w *World) NewConn(n *centrifuge.Node, o TransportOpts) *Conn {
	return w.NewConnCtx(context.Background(), n, o)
}

func (w *World) NewConnCtx(ctx context.Context, n *centrifuge.Node, o TransportOpts) *Conn {
	t := w.NewTransport(o)
	cl, closeFn, err := centrifuge.NewClient(ctx, n, t)
	if err != nil {
		panic(fmt.Sprintf("kit: NewClient: %v", err))
	}
	return &Conn{W: w, T: t, Client: cl, CloseFn: closeFn}
}

// NextID allocates a command id.
func (c *Conn) NextID() uint32 { return c.nextID.Add(1) }

// Do hands cmd to the client as the transport reader would. It returns what
// HandleCommand returned (false = stop reading).
func (c *Conn) Do(cmd *protocol.Command) bool {
	c.rd.Lock()
	defer c.rd.Unlock()
	size := cmd.SizeVT()
	return c.Client.HandleCommand(cmd, size)
}

// Connect sends a connect command and returns its id.
func (c *Conn) Connect(req *protocol.ConnectRequest) uint32 {
	if req == nil {
		req = &protocol.ConnectRequest{}
	}
	id := c.NextID()
	c.Do(&protocol.Command{Id: id, Connect: req})
	return id
}

// Subscribe sends a subscribe command and returns its id.
func (c *Conn) Subscribe(req *protocol.SubscribeRequest) uint32 {
	id := c.NextID()
	c.Do(&protocol.Command{Id: id, Subscribe: req})
	return id
}

// Unsubscribe sends an unsubscribe command and returns its id.
func (c *Conn) Unsubscribe(ch string) uint32 {
	id := c.NextID()
	c.Do(&protocol.Command{Id: id, Unsubscribe: &protocol.UnsubscribeRequest{Channel: ch}})
	return id
}

// WaitReply settles the world and returns the reply with the given id, if written.
func (c *Conn) WaitReply(id uint32) (Frame, bool) {
	c.W.Settle()
	return c.ReplyFor(id)
}

// PollReply waits for the reply with the given id by sleeping in 1ms steps (virtual
// time inside a bubble) for at most max. Unlike WaitReply it may be used from several
// goroutines at once (synctest.Wait cannot).
func (c *Conn) PollReply(id uint32, max time.Duration) (Frame, bool) {
	for waited := time.Duration(0); ; waited += time.Millisecond {
		if f, ok := c.ReplyFor(id); ok {
			return f, true
		}
		if closed, _, _ := c.T.Closed(); closed || waited >= max {
			return c.ReplyFor(id)
		}
		time.Sleep(time.Millisecond)
	}
}

// ReplyFor returns the reply frame with the given command id, if written.
func (c *Conn) ReplyFor(id uint32) (Frame, bool) {
	for _, f := range c.T.Frames() {
		if f.Reply != nil && f.Reply.Id == id {
			return f, true
		}
	}
	return Frame{}, false
}

// GaugeSum sums every sample of the metric families whose name ends with suffix.
func GaugeSum(reg *prometheus.Registry, suffix string) float64 {
	mfs, err := reg.Gather()
	if err != nil {
		return -1
	}
	var sum float64
	for _, mf := range mfs {
		if !strings.HasSuffix(mf.GetName(), suffix) {
			continue
		}
		for _, m := range mf.GetMetric() {
			if m.Gauge != nil {
				sum += m.Gauge.GetValue()
			}
			if m.Counter != nil {
				sum += m.Counter.GetValue()
			}
		}
	}
	return sum
}

// Creds is a convenience OnConnecting handler result.
func Creds(user string) centrifuge.ConnectReply {
	return centrifuge.ConnectReply{Credentials: &centrifuge.Credentials{UserID: user}}
}
