package cluster

import (
	"context"
	"fmt"
	"sort"
	"sync"
	"time"

	"github.com/centrifugal/centrifuge"
	"github.com/centrifugal/centrifuge/verifx/kit"
	"github.com/centrifugal/protocol"
)

// SubSpec describes the options of a subscription set up before the operations
// under test (JSON-marshalable, unlike centrifuge.SubscribeOptions).
type SubSpec struct {
	Presence      bool   `json:"presence,omitempty"`
	JoinLeave     bool   `json:"join_leave,omitempty"`
	PushJoinLeave bool   `json:"push_join_leave,omitempty"`
	Position      bool   `json:"position,omitempty"`
	Recover       bool   `json:"recover,omitempty"`
	Info          string `json:"info,omitempty"`
}

func (s SubSpec) Options() centrifuge.SubscribeOptions {
	o := centrifuge.SubscribeOptions{EmitPresence: s.Presence, EmitJoinLeave: s.JoinLeave, PushJoinLeave: s.PushJoinLeave,
		EnablePositioning: s.Position, EnableRecovery: s.Recover}
	if s.Info != "" {
		o.ChannelInfo = []byte(s.Info)
	}
	return o
}

// SlotSpec describes one logical connection; it is instantiated once per node.
type SlotSpec struct {
	Name       string             `json:"name"`
	User       string             `json:"user"`
	Labels     map[string]string  `json:"labels,omitempty"`
	Protobuf   bool               `json:"protobuf,omitempty"`
	Emulation  bool               `json:"emulation,omitempty"` // gives the connection a session id
	Info       string             `json:"info,omitempty"`
	ClientSubs map[string]SubSpec `json:"client_subs,omitempty"` // subscribed by client command
	ServerSubs map[string]SubSpec `json:"server_subs,omitempty"` // ConnectReply.Subscriptions
}

// Event is one recorded application callback of a connection.
type Event struct {
	Seq     int64
	Kind    string // subscribe unsubscribe disconnect
	Channel string
	Code    uint32
	Reason  string
	Server  bool
}

// Member is one slot instantiated on one node.
type Member struct {
	Slot    *SlotSpec
	NodeIdx int
	Conn    *kit.Conn
	ID      string
	Session string

	mu        sync.Mutex
	events    []Event
	frameMark int
	eventMark int
}

func (m *Member) record(w *kit.World, e Event) {
	e.Seq = w.Seq()
	m.mu.Lock()
	m.events = append(m.events, e)
	m.mu.Unlock()
}

// NewFrames returns the frames written since the previous call.
func (m *Member) NewFrames() []kit.Frame {
	fs := m.Conn.T.Frames()
	m.mu.Lock()
	defer m.mu.Unlock()
	out := fs[m.frameMark:]
	m.frameMark = len(fs)
	return out
}

// NewEvents returns the callbacks recorded since the previous call.
func (m *Member) NewEvents() []Event {
	m.mu.Lock()
	defer m.mu.Unlock()
	out := append([]Event(nil), m.events[m.eventMark:]...)
	m.eventMark = len(m.events)
	return out
}

// Closed reports whether the transport was closed and with which disconnect.
func (m *Member) Closed() (bool, centrifuge.Disconnect) {
	closed, d, _ := m.Conn.T.Closed()
	return closed, d
}

// Pair is a cluster of nodes joined by a Bus with the same slots on every node.
type Pair struct {
	C       *kit.Case
	W       *kit.World
	Bus     *Bus
	Nodes   []*centrifuge.Node
	Members [][]*Member // [node][slot]
	Slots   []*SlotSpec

	byTrans sync.Map // *kit.RecTransport -> *Member
	nameMu  sync.Mutex
	names   map[string]string // client id -> slot name
}

// NewPair starts nNodes nodes on one bus. Connections are created by ConnectAll.
func NewPair(c *kit.Case, nNodes int, slots []*SlotSpec, cfgFn func(cfg *centrifuge.Config)) *Pair {
	p := &Pair{C: c, W: kit.NewWorld(c), Bus: NewBus(), Slots: slots, names: map[string]string{}}
	for i := 0; i < nNodes; i++ {
		cfg := centrifuge.Config{
			Name:                  fmt.Sprintf("node%d", i),
			ClientStaleCloseDelay: time.Hour,
		}
		if cfgFn != nil {
			cfgFn(&cfg)
		}
		port := p.Bus.Port()
		n, _ := p.W.NewNode(cfg, func(n *centrifuge.Node) {
			n.SetController(port)
			p.install(n)
		})
		p.Nodes = append(p.Nodes, n)
		p.Members = append(p.Members, nil)
	}
	return p
}

func (p *Pair) memberOf(t centrifuge.TransportInfo) *Member {
	if rt, ok := t.(*kit.RecTransport); ok {
		if v, ok := p.byTrans.Load(rt); ok {
			return v.(*Member)
		}
	}
	return nil
}

func (p *Pair) install(n *centrifuge.Node) {
	n.OnConnecting(func(_ context.Context, ev centrifuge.ConnectEvent) (centrifuge.ConnectReply, error) {
		m := p.memberOf(ev.Transport)
		if m == nil {
			return centrifuge.ConnectReply{}, centrifuge.DisconnectBadRequest
		}
		rep := centrifuge.ConnectReply{Credentials: &centrifuge.Credentials{UserID: m.Slot.User}}
		if m.Slot.Info != "" {
			rep.Credentials.Info = []byte(m.Slot.Info)
		}
		if len(m.Slot.Labels) > 0 {
			rep.Labels = map[string]string{}
			for k, v := range m.Slot.Labels {
				rep.Labels[k] = v
			}
		}
		if len(m.Slot.ServerSubs) > 0 {
			rep.Subscriptions = map[string]centrifuge.SubscribeOptions{}
			for ch, s := range m.Slot.ServerSubs {
				rep.Subscriptions[ch] = s.Options()
			}
		}
		return rep, nil
	})
	n.OnConnect(func(cl *centrifuge.Client) {
		m := p.memberOf(cl.Transport())
		if m == nil {
			return
		}
		cl.OnSubscribe(func(ev centrifuge.SubscribeEvent, cb centrifuge.SubscribeCallback) {
			s, ok := m.Slot.ClientSubs[ev.Channel]
			if !ok {
				cb(centrifuge.SubscribeReply{}, centrifuge.ErrorPermissionDenied)
				return
			}
			m.record(p.W, Event{Kind: "subscribe", Channel: ev.Channel})
			cb(centrifuge.SubscribeReply{Options: s.Options()}, nil)
		})
		cl.OnUnsubscribe(func(ev centrifuge.UnsubscribeEvent) {
			m.record(p.W, Event{Kind: "unsubscribe", Channel: ev.Channel, Code: ev.Code, Reason: ev.Reason, Server: ev.ServerSide})
		})
		cl.OnDisconnect(func(ev centrifuge.DisconnectEvent) {
			m.record(p.W, Event{Kind: "disconnect", Code: ev.Code, Reason: ev.Reason})
		})
	})
}

// ConnectAll creates every slot's connection on every node (slot by slot, node
// by node), connects it and performs its client-side subscriptions (channels in
// sorted order). It returns an error text when the setup itself misbehaved.
func (p *Pair) ConnectAll() string {
	for si, s := range p.Slots {
		for ni, n := range p.Nodes {
			o := kit.TransportOpts{Emulation: s.Emulation, PingPong: centrifuge.PingPongConfig{PingInterval: -1, PongTimeout: -1}, Name: fmt.Sprintf("n%d-%s", ni, s.Name)}
			if s.Protobuf {
				o.Protocol = centrifuge.ProtocolTypeProtobuf
			}
			t := p.W.NewTransport(o)
			m := &Member{Slot: s, NodeIdx: ni}
			p.byTrans.Store(t, m)
			cl, closeFn, err := centrifuge.NewClient(context.Background(), n, t)
			if err != nil {
				return "NewClient: " + err.Error()
			}
			m.Conn = &kit.Conn{W: p.W, T: t, Client: cl, CloseFn: closeFn}
			m.ID = cl.ID()
			p.nameMu.Lock()
			p.names[m.ID] = s.Name
			p.nameMu.Unlock()
			p.Members[ni] = append(p.Members[ni], m)
			id := m.Conn.Connect(&protocol.ConnectRequest{})
			f, ok := m.Conn.WaitReply(id)
			if !ok || f.Reply.Error != nil || f.Reply.Connect == nil {
				return fmt.Sprintf("slot %d node %d: connect failed: %+v", si, ni, f.Reply)
			}
			m.Session = f.Reply.Connect.Session
			chs := make([]string, 0, len(s.ClientSubs))
			for ch := range s.ClientSubs {
				chs = append(chs, ch)
			}
			sort.Strings(chs)
			for _, ch := range chs {
				id := m.Conn.Subscribe(&protocol.SubscribeRequest{Channel: ch})
				f, ok := m.Conn.WaitReply(id)
				if !ok || f.Reply.Error != nil {
					return fmt.Sprintf("slot %d node %d: subscribe %s failed: %+v", si, ni, ch, f.Reply)
				}
			}
		}
	}
	p.W.Settle()
	return ""
}

// Name maps a client id to its slot name ("?" + id for unknown ids).
func (p *Pair) Name(clientID string) string {
	p.nameMu.Lock()
	defer p.nameMu.Unlock()
	if n, ok := p.names[clientID]; ok {
		return n
	}
	return "?" + clientID
}

// Finish closes every connection and shuts the nodes down.
func (p *Pair) Finish() {
	for _, ms := range p.Members {
		for _, m := range ms {
			_ = m.Conn.CloseFn()
		}
	}
	p.W.Settle()
	p.W.Shutdown()
	p.Bus.Close()
}

// Presence returns the normalised presence entries of ch on node ni (sorted):
// "slot user conninfo chaninfo".
func (p *Pair) Presence(ni int, ch string) []string {
	res, err := p.Nodes[ni].Presence(ch)
	if err != nil {
		return []string{"error:" + err.Error()}
	}
	out := make([]string, 0, len(res.Presence))
	for id, ci := range res.Presence {
		out = append(out, fmt.Sprintf("%s user=%q conn=%q chan=%q", p.Name(id), ci.UserID, ci.ConnInfo, ci.ChanInfo))
	}
	sort.Strings(out)
	return out
}

func infoStr(p *Pair, ci *protocol.ClientInfo) string {
	if ci == nil {
		return "nil"
	}
	return fmt.Sprintf("%s user=%q conn=%q chan=%q", p.Name(ci.Client), ci.User, ci.ConnInfo, ci.ChanInfo)
}

// Canon renders a frame in a node-independent form: client ids become slot
// names, stream epochs become "set"/"empty", timestamps are dropped.
func (p *Pair) Canon(f kit.Frame) string {
	if f.DecodeErr != "" {
		return "undecodable:" + f.DecodeErr
	}
	if f.Reply != nil && f.Reply.Id != 0 {
		if f.Reply.Error != nil {
			return fmt.Sprintf("reply error=%d", f.Reply.Error.Code)
		}
		return "reply"
	}
	pu := f.Push
	if pu == nil {
		return "empty-frame"
	}
	ep := func(e string) string {
		if e == "" {
			return "empty"
		}
		return "set"
	}
	switch {
	case pu.Subscribe != nil:
		s := pu.Subscribe
		return fmt.Sprintf("subscribe ch=%q offset=%d epoch=%s recoverable=%v positioned=%v data=%q", pu.Channel, s.Offset, ep(s.Epoch), s.Recoverable, s.Positioned, s.Data)
	case pu.Pub != nil:
		return fmt.Sprintf("publication ch=%q offset=%d data=%q", pu.Channel, pu.Pub.Offset, pu.Pub.Data)
	case pu.Unsubscribe != nil:
		return fmt.Sprintf("unsubscribe ch=%q code=%d reason=%q", pu.Channel, pu.Unsubscribe.Code, pu.Unsubscribe.Reason)
	case pu.Disconnect != nil:
		return fmt.Sprintf("disconnect code=%d reason=%q reconnect=%v", pu.Disconnect.Code, pu.Disconnect.Reason, pu.Disconnect.Reconnect)
	case pu.Refresh != nil:
		return fmt.Sprintf("refresh expires=%v ttl=%d", pu.Refresh.Expires, pu.Refresh.Ttl)
	case pu.Join != nil:
		return fmt.Sprintf("join ch=%q %s", pu.Channel, infoStr(p, pu.Join.Info))
	case pu.Leave != nil:
		return fmt.Sprintf("leave ch=%q %s", pu.Channel, infoStr(p, pu.Leave.Info))
	case pu.Message != nil:
		return fmt.Sprintf("message data=%q", pu.Message.Data)
	case pu.Connect != nil:
		return "connect-push"
	}
	return fmt.Sprintf("other ch=%q", pu.Channel)
}
