package cluster

import (
	"fmt"
	"strings"

	"github.com/centrifugal/centrifuge"
	"github.com/centrifugal/centrifuge/verifx/kit"
)

// Label universe used by the checks.
var (
	LabelKeys = []string{"tier", "region", "grp", "absent"}
	LabelVals = map[string][]string{
		"tier":   {"pro", "free"},
		"region": {"eu", "us", "eu-west"},
		"grp":    {"a", "b", ""},
		"absent": {"x"},
	}
)

// RandLabels draws a label set (a key may be missing; "absent" always is).
func RandLabels(r *kit.Rand) map[string]string {
	out := map[string]string{}
	for _, k := range LabelKeys[:3] {
		if r.Chance(3, 4) {
			out[k] = kit.Pick(r, LabelVals[k])
		}
	}
	if len(out) == 0 {
		return nil
	}
	return out
}

// RandFilter draws a well-formed label filter over the label universe.
func RandFilter(r *kit.Rand, depth int) *centrifuge.FilterNode {
	if depth > 0 && r.Chance(1, 3) {
		switch r.Intn(3) {
		case 0:
			return &centrifuge.FilterNode{Op: "not", Nodes: []*centrifuge.FilterNode{RandFilter(r, depth-1)}}
		case 1:
			return &centrifuge.FilterNode{Op: "and", Nodes: []*centrifuge.FilterNode{RandFilter(r, depth-1), RandFilter(r, depth-1)}}
		default:
			return &centrifuge.FilterNode{Op: "or", Nodes: []*centrifuge.FilterNode{RandFilter(r, depth-1), RandFilter(r, depth-1)}}
		}
	}
	k := kit.Pick(r, LabelKeys)
	v := kit.Pick(r, LabelVals[k])
	nv := v // eq / neq / sw require a non-empty Val
	if nv == "" {
		nv = "a"
	}
	switch r.Intn(7) {
	case 0:
		return &centrifuge.FilterNode{Key: k, Cmp: "eq", Val: nv}
	case 1:
		return &centrifuge.FilterNode{Key: k, Cmp: "neq", Val: nv}
	case 2:
		return &centrifuge.FilterNode{Key: k, Cmp: "in", Vals: []string{v, kit.Pick(r, LabelVals[k])}}
	case 3:
		return &centrifuge.FilterNode{Key: k, Cmp: "nin", Vals: []string{v}}
	case 4:
		return &centrifuge.FilterNode{Key: k, Cmp: "ex"}
	case 5:
		return &centrifuge.FilterNode{Key: k, Cmp: "nex"}
	default:
		return &centrifuge.FilterNode{Key: k, Cmp: "sw", Val: nv[:min(len(nv), 2)]}
	}
}

// MatchLabels evaluates a filter produced by RandFilter against labels,
// independently of the library's evaluator (written from the documented
// semantics: a missing key matches only neq / nin / nex).
func MatchLabels(f *centrifuge.FilterNode, labels map[string]string) bool {
	if f == nil {
		return true
	}
	switch f.Op {
	case "not":
		return !MatchLabels(f.Nodes[0], labels)
	case "and":
		for _, c := range f.Nodes {
			if !MatchLabels(c, labels) {
				return false
			}
		}
		return true
	case "or":
		for _, c := range f.Nodes {
			if MatchLabels(c, labels) {
				return true
			}
		}
		return false
	}
	val, ok := labels[f.Key]
	in := false
	for _, v := range f.Vals {
		if v == val {
			in = true
		}
	}
	switch f.Cmp {
	case "eq":
		return ok && val == f.Val
	case "neq":
		return !ok || val != f.Val
	case "in":
		return ok && in
	case "nin":
		return !ok || !in
	case "ex":
		return ok
	case "nex":
		return !ok
	case "sw":
		return ok && strings.HasPrefix(val, f.Val)
	}
	panic("cluster: unknown cmp " + f.Cmp)
}

// FilterString renders a filter for samples and messages.
func FilterString(f *centrifuge.FilterNode) string {
	if f == nil {
		return ""
	}
	if f.Op != "" {
		parts := make([]string, 0, len(f.Nodes))
		for _, c := range f.Nodes {
			parts = append(parts, FilterString(c))
		}
		return f.Op + "(" + strings.Join(parts, ",") + ")"
	}
	if len(f.Vals) > 0 {
		return fmt.Sprintf("%s %s %v", f.Key, f.Cmp, f.Vals)
	}
	return fmt.Sprintf("%s %s %q", f.Key, f.Cmp, f.Val)
}
