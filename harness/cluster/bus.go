// Package cluster is the shared scaffolding of the checks that reason about a
// cluster of nodes inside one virtual-time bubble (C27, C28): an in-memory
// Controller bus, mirrored connections on two nodes, recording of application
// callbacks, a canonical rendering of the frames a connection received, and a
// label-filter generator with an independent evaluator.
package cluster

import (
	"sync"
	"sync/atomic"

	"github.com/centrifugal/centrifuge"
)

// Bus is an in-memory control channel joining the nodes of one bubble. Every
// node gets its own Port (a centrifuge.Controller).
type Bus struct {
	mu     sync.Mutex
	ports  []*Port
	closed bool
	// Delivered counts control messages handed to a node's HandleControl.
	Delivered atomic.Int64
}

func NewBus() *Bus { return &Bus{} }

// Port is the Controller endpoint of one node.
type Port struct {
	bus     *Bus
	h       centrifuge.ControlEventHandler
	nodeID  string
	queue   [][]byte
	running bool
}

// Port creates the endpoint for one node; pass it to node.SetController before Run.
func (b *Bus) Port() *Port {
	p := &Port{bus: b}
	b.mu.Lock()
	b.ports = append(b.ports, p)
	b.mu.Unlock()
	return p
}

// Close drops every queued and future message.
func (b *Bus) Close() {
	b.mu.Lock()
	b.closed = true
	for _, p := range b.ports {
		p.queue = nil
	}
	b.mu.Unlock()
}

func (p *Port) RegisterControlEventHandler(h centrifuge.ControlEventHandler) error {
	p.bus.mu.Lock()
	p.h = h
	if n, ok := h.(*centrifuge.Node); ok {
		p.nodeID = n.ID()
	}
	p.bus.mu.Unlock()
	return nil
}

// PublishControl delivers data to every other registered node (empty nodeID) or
// to the node with the given id. A node ignores its own control messages, so the
// sender is never among the receivers. Delivery is asynchronous (its own
// goroutine) and FIFO per receiving node.
func (p *Port) PublishControl(data []byte, nodeID, _ string) error {
	msg := append([]byte(nil), data...)
	b := p.bus
	b.mu.Lock()
	defer b.mu.Unlock()
	if b.closed {
		return nil
	}
	for _, t := range b.ports {
		if t == p || t.h == nil {
			continue
		}
		if nodeID != "" && t.nodeID != nodeID {
			continue
		}
		t.queue = append(t.queue, msg)
		if !t.running {
			t.running = true
			go t.drain()
		}
	}
	return nil
}

// drain delivers the queued messages of one receiver in order and exits when the
// queue is empty (no goroutine outlives the traffic).
func (p *Port) drain() {
	b := p.bus
	for {
		b.mu.Lock()
		if len(p.queue) == 0 || b.closed {
			p.running = false
			b.mu.Unlock()
			return
		}
		msg := p.queue[0]
		p.queue = p.queue[1:]
		h := p.h
		b.mu.Unlock()
		_ = h.HandleControl(msg)
		b.Delivered.Add(1)
	}
}
