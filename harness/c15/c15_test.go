// C15: Tags filter evaluation matches its specification.
//
// Differential oracle for internal/filter (Validate, Match, Hash) against a
// reference evaluator written from the property statement and the documentation
// of protocol.FilterNode / filter.Validate.
package c15

import (
	"encoding/json"
	"fmt"
	"math/big"
	"sort"
	"strings"
	"testing"
	"unicode/utf8"

	"github.com/centrifugal/centrifuge/internal/filter"
	"github.com/centrifugal/centrifuge/verifx/kit"
	"github.com/centrifugal/protocol"
	"github.com/mailru/easyjson/jlexer"
)

type FN = protocol.FilterNode

var leafOps = []string{"eq", "neq", "in", "nin", "ex", "nex", "sw", "ew", "ct", "gt", "gte", "lt", "lte"}

func isSingleValOp(c string) bool {
	switch c {
	case "eq", "neq", "sw", "ew", "ct", "gt", "gte", "lt", "lte":
		return true
	}
	return false
}
func isNumOp(c string) bool  { return c == "gt" || c == "gte" || c == "lt" || c == "lte" }
func isSetOp(c string) bool  { return c == "in" || c == "nin" }
func isExistOp(c string) bool { return c == "ex" || c == "nex" }

// ---------------------------------------------------------------------------------------------
// Reference: well-formedness (documentation of FilterNode + Validate) and evaluation (statement).

// refWF reports whether the tree is well-formed; reason names the first broken rule in pre-order.
func refWF(n *FN) (bool, string) {
	if n == nil {
		return false, "nil-node"
	}
	switch n.Op {
	case "":
		switch {
		case n.Cmp == "":
			return false, "leaf-without-cmp"
		case isSingleValOp(n.Cmp):
			if n.Val == "" {
				return false, "single-value-op-without-val"
			}
			if len(n.Vals) > 0 {
				return false, "single-value-op-with-vals"
			}
		case isSetOp(n.Cmp):
			if len(n.Vals) == 0 {
				return false, "set-op-without-vals"
			}
			if n.Val != "" {
				return false, "set-op-with-val"
			}
		case isExistOp(n.Cmp):
			if n.Val != "" || len(n.Vals) > 0 {
				return false, "exists-op-with-val-or-vals"
			}
		default:
			return false, "unknown-cmp"
		}
		if n.Key == "" && !isExistOp(n.Cmp) {
			return false, "leaf-without-key"
		}
		return true, ""
	case "and", "or":
		if len(n.Nodes) == 0 {
			return false, "and-or-without-children"
		}
		for _, ch := range n.Nodes {
			if ok, why := refWF(ch); !ok {
				return false, why
			}
		}
		return true, ""
	case "not":
		if len(n.Nodes) != 1 {
			return false, "not-arity"
		}
		return refWF(n.Nodes[0])
	}
	return false, "unknown-op"
}

func hasNil(n *FN) bool {
	if n == nil {
		return true
	}
	for _, ch := range n.Nodes {
		if hasNil(ch) {
			return true
		}
	}
	return false
}

// numInfo: what we know about a string used as a numeral.
type numInfo struct {
	accepted bool     // the engine parses it: probed against a different, certainly accepted numeral in both positions
	selfCmp  bool     // gte/lte of the string with itself holds
	oneSided bool     // accepted as a tag value but not as a filter value, or the reverse
	grammar  bool     // [+-]?digits[.digits]: its exact decimal value is defined
	rat      *big.Rat // exact value when grammar
}

var numCache = map[string]numInfo{}

func parseGrammar(s string) (*big.Rat, bool) {
	t := s
	if t == "" {
		return nil, false
	}
	neg := false
	if t[0] == '+' || t[0] == '-' {
		neg = t[0] == '-'
		t = t[1:]
	}
	ip, fp, hasDot := strings.Cut(t, ".")
	if ip == "" || (hasDot && fp == "") {
		return nil, false
	}
	for _, p := range []string{ip, fp} {
		for i := 0; i < len(p); i++ {
			if p[i] < '0' || p[i] > '9' {
				return nil, false
			}
		}
	}
	num, ok := new(big.Int).SetString(ip+fp, 10)
	if !ok {
		return nil, false
	}
	den := new(big.Int).Exp(big.NewInt(10), big.NewInt(int64(len(fp))), nil)
	r := new(big.Rat).SetFrac(num, den)
	if neg {
		r.Neg(r)
	}
	return r, true
}

func engineMatch(n *FN, tags map[string]string) (res bool, err error, panicked any) {
	defer func() {
		if r := recover(); r != nil {
			panicked = r
		}
	}()
	res, err = filter.Match(n, tags)
	return
}

func engineValidate(n *FN) (err error, panicked any) {
	defer func() {
		if r := recover(); r != nil {
			panicked = r
		}
	}()
	err = filter.Validate(n)
	return
}

func numeral(s string) numInfo {
	if ni, ok := numCache[s]; ok {
		return ni
	}
	var ni numInfo
	tags := map[string]string{"n": s}
	a, _, p1 := engineMatch(&FN{Key: "n", Cmp: "gte", Val: s}, tags)
	b, _, p2 := engineMatch(&FN{Key: "n", Cmp: "lte", Val: s}, tags)
	ni.selfCmp = (a && p1 == nil) || (b && p2 == nil)
	// Acceptance is probed against another numeral, as tag value and as filter value: every
	// number is >= 7 or < 7. (Probing x against x alone would let an engine that short-cuts
	// identical strings define its own acceptance.)
	other := "7"
	if s == other {
		other = "8"
	}
	probe := func(cmp, val, tag string) bool {
		r, _, pn := engineMatch(&FN{Key: "n", Cmp: cmp, Val: val}, map[string]string{"n": tag})
		return r && pn == nil
	}
	asTag := probe("gte", other, s) || probe("lt", other, s)
	asVal := probe("gte", s, other) || probe("lt", s, other)
	ni.accepted = asTag && asVal
	ni.oneSided = asTag != asVal
	ni.rat, ni.grammar = parseGrammar(s)
	if len(numCache) > 1<<16 {
		numCache = map[string]numInfo{}
	}
	numCache[s] = ni
	return ni
}

type tri int8

const (
	triFalse tri = iota
	triTrue
	triUnknown
)

func b2t(b bool) tri {
	if b {
		return triTrue
	}
	return triFalse
}

// refLeaf evaluates a well-formed leaf per the property statement.
func refLeaf(n *FN, tags map[string]string) tri {
	v, present := tags[n.Key]
	switch n.Cmp {
	case "eq": // a missing key equals no value
		return b2t(present && v == n.Val)
	case "neq":
		return b2t(!(present && v == n.Val))
	case "in": // a missing key is in no set
		in := false
		if present {
			for _, x := range n.Vals {
				if x == v {
					in = true
				}
			}
		}
		return b2t(in)
	case "nin":
		in := false
		if present {
			for _, x := range n.Vals {
				if x == v {
					in = true
				}
			}
		}
		return b2t(!in)
	case "ex":
		return b2t(present)
	case "nex":
		return b2t(!present)
	case "sw":
		return b2t(present && strings.HasPrefix(v, n.Val))
	case "ew":
		return b2t(present && strings.HasSuffix(v, n.Val))
	case "ct":
		return b2t(present && strings.Contains(v, n.Val))
	case "gt", "gte", "lt", "lte":
		if !present {
			return triFalse
		}
		a, b := numeral(v), numeral(n.Val)
		if !a.accepted || !b.accepted {
			return triFalse // "false otherwise"
		}
		if !a.grammar || !b.grammar {
			return triUnknown // engine accepts something that is not a decimal numeral: value undefined
		}
		cmp := a.rat.Cmp(b.rat)
		switch n.Cmp {
		case "gt":
			return b2t(cmp > 0)
		case "gte":
			return b2t(cmp >= 0)
		case "lt":
			return b2t(cmp < 0)
		default:
			return b2t(cmp <= 0)
		}
	}
	panic("refLeaf: not a well-formed leaf")
}

// ---------------------------------------------------------------------------------------------
// Generator

var keyPool = []string{"a", "b", "c", "env", "price", "k1", "ключ", "a.b", " "}
var strPool = []string{"", "x", "ab", "abc", "abcabc", "b", "bc", "prod", "staging", "X", "ü", "日本", " ", "a b", "null", "0", "\x00", "ab\n"}
var numPool = []string{
	"0", "-0", "+0", "0.0", "-0.00", "00", "1", "+1", "-1", "01", "001.10", "1.0", "1.10", "1.1", "+1.1", "-1.1", "1.100000",
	"10", "9.99", "9.990", "10.00", "1e3", "1E3", "1000", "NaN", "Inf", "-Inf", "inf", " 1", "1 ", "1.", ".5", "0.5", "-.5", "-0.5", "+", "-", ".",
	"1..2", "1.2.3", "0x10", "1_000", "١٢", "1,5", "--5", "+-5", "-+5", "1/2", "5-",
	"0.1234567890123456789", "0.12345678901234567890", "0.1234567890123456788", "0.123456789012345679",
	"0.0000000000000000001", "0.00000000000000000001", "-0.0000000000000000001",
	"18446744073709551615", "18446744073709551616", "18446744073709551615.5", "-18446744073709551616",
	"9999999999999999999", "9999999999999999999.9999999999999999999", "10000000000000000000",
	"340282366920938463463374607431768211455", "340282366920938463463374607431768211456", "340282366920938463463374607431768211455.1",
	"-340282366920938463463374607431768211456", "+340282366920938463463374607431768211455",
	"0000000000000000000000000000000000000000001", "00000000000000000000000000000000000000000001.50",
	"-+1234567890123456789012345678901234567890", "+-1234567890123456789012345678901234567890",
	"123456789012345678901234567890123456789012345678901234567890", "123456789012345678901234567890123456789012345678901234567890.000",
	"123456789012345678901234567890123456789012345678901234567891", "-123456789012345678901234567890123456789012345678901234567890",
}

func init() {
	d199 := strings.Repeat("7", 199)
	numPool = append(numPool, d199, d199+"7", d199+"77", "-"+d199, "-"+d199+"7", strings.Repeat("7", 180)+"."+strings.Repeat("1", 19), strings.Repeat("7", 181)+"."+strings.Repeat("1", 19))
}

type gen struct {
	r            *kit.Rand
	keys         []string
	strs         []string
	nums         []string
	emptyInVals  bool // zone A: "" may appear in Vals of in/nin
	nilNodes     bool // zone B: nil child nodes may be injected
}

func (g *gen) randNumeral() string {
	r := g.r
	var sb strings.Builder
	switch r.Intn(6) {
	case 0:
		sb.WriteByte('-')
	case 1:
		sb.WriteByte('+')
	}
	if r.Chance(1, 4) {
		sb.WriteString(strings.Repeat("0", r.Range(1, 3)))
	}
	nd := 1
	switch r.Intn(5) {
	case 0:
		nd = 1
	case 1:
		nd = r.Range(1, 6)
	case 2:
		nd = r.Range(17, 22)
	case 3:
		nd = r.Range(36, 43)
	case 4:
		nd = r.Range(1, 60)
	}
	for i := 0; i < nd; i++ {
		sb.WriteByte(byte('0' + r.Intn(10)))
	}
	if r.Chance(3, 5) {
		sb.WriteByte('.')
		nf := r.Range(1, 4)
		if r.Chance(1, 3) {
			nf = r.Range(17, 21)
		}
		for i := 0; i < nf; i++ {
			sb.WriteByte(byte('0' + r.Intn(10)))
		}
	}
	return sb.String()
}

// variants of a grammar numeral that are equal or adjacent in value.
func (g *gen) variants(s string) []string {
	out := []string{s}
	body, sign := s, ""
	if s[0] == '+' || s[0] == '-' {
		sign, body = s[:1], s[1:]
	}
	if strings.Contains(body, ".") {
		out = append(out, sign+body+"0", sign+body+"00")
	} else {
		out = append(out, sign+body+".0", sign+body+".000")
	}
	out = append(out, sign+"0"+body, sign+"000"+body)
	// neighbour: change the last digit
	last := body[len(body)-1]
	nl := byte('0' + (int(last-'0')+1)%10)
	out = append(out, sign+body[:len(body)-1]+string(nl))
	// flipped sign
	if sign == "-" {
		out = append(out, body, "+"+body)
	} else {
		out = append(out, "-"+body)
	}
	return out
}

func newGen(c *kit.Case) *gen {
	r := c.R
	g := &gen{r: r}
	g.emptyInVals = c.Index < zoneA
	g.nilNodes = c.Index >= zoneA && c.Index < zoneA+zoneB
	nk := r.Range(2, 5)
	perm := r.Perm(len(keyPool))
	for i := 0; i < nk; i++ {
		g.keys = append(g.keys, keyPool[perm[i]])
	}
	ns := r.Range(4, 8)
	for i := 0; i < ns; i++ {
		g.strs = append(g.strs, kit.Pick(r, strPool))
	}
	for i := 0; i < 6; i++ {
		g.nums = append(g.nums, kit.Pick(r, numPool))
	}
	for i := 0; i < 2; i++ {
		g.nums = append(g.nums, g.variants(g.randNumeral())...)
	}
	if r.Bool() {
		// variants of a pool numeral that has a defined value
		for tries := 0; tries < 5; tries++ {
			s := kit.Pick(r, numPool)
			if _, ok := parseGrammar(s); ok {
				g.nums = append(g.nums, g.variants(s)...)
				break
			}
		}
	}
	return g
}

func (g *gen) nonEmptyStr() string {
	for i := 0; i < 10; i++ {
		s := g.anyVal()
		if s != "" {
			return s
		}
	}
	return "x"
}

func (g *gen) anyVal() string {
	if g.r.Chance(2, 5) {
		return kit.Pick(g.r, g.nums)
	}
	return kit.Pick(g.r, g.strs)
}

func (g *gen) key() string { return kit.Pick(g.r, g.keys) }

func (g *gen) leaf(cmp string) *FN {
	r := g.r
	n := &FN{Cmp: cmp}
	switch {
	case isNumOp(cmp):
		n.Key = g.key()
		if r.Chance(9, 10) {
			n.Val = kit.Pick(r, g.nums)
		} else {
			n.Val = g.nonEmptyStr()
		}
	case cmp == "sw" || cmp == "ew" || cmp == "ct":
		n.Key = g.key()
		s := g.nonEmptyStr()
		if r.Bool() && len(s) > 1 { // a piece of a value that may occur in tags
			switch cmp {
			case "sw":
				s = s[:r.Range(1, len(s))]
			case "ew":
				s = s[r.Range(0, len(s)-1):]
			default:
				a := r.Range(0, len(s)-1)
				s = s[a:r.Range(a+1, len(s))]
			}
		}
		n.Val = s
	case isSingleValOp(cmp):
		n.Key = g.key()
		n.Val = g.nonEmptyStr()
	case isSetOp(cmp):
		n.Key = g.key()
		k := r.Range(1, 4)
		for i := 0; i < k; i++ {
			v := g.nonEmptyStr()
			if g.emptyInVals && r.Chance(2, 5) {
				v = ""
			}
			n.Vals = append(n.Vals, v)
		}
	default: // ex, nex
		n.Key = g.key()
		if r.Chance(1, 6) {
			n.Key = ""
		}
	}
	return n
}

func (g *gen) tree(depth int) *FN {
	r := g.r
	if depth <= 1 || r.Chance(1, 3) {
		return g.leaf(kit.Pick(r, leafOps))
	}
	switch r.Intn(3) {
	case 0:
		return &FN{Op: "not", Nodes: []*FN{g.tree(depth - 1)}}
	case 1:
		return g.branch("and", depth)
	default:
		return g.branch("or", depth)
	}
}

func (g *gen) branch(op string, depth int) *FN {
	n := &FN{Op: op}
	k := g.r.Range(1, 3)
	for i := 0; i < k; i++ {
		n.Nodes = append(n.Nodes, g.tree(depth-1))
	}
	return n
}

func collect(n *FN, out *[]*FN) {
	if n == nil {
		return
	}
	*out = append(*out, n)
	for _, ch := range n.Nodes {
		collect(ch, out)
	}
}

// breakOne injects one ill-formedness into a random node; returns a label ("" if nothing applied).
func (g *gen) breakOne(root *FN) string {
	r := g.r
	var nodes []*FN
	collect(root, &nodes)
	n := kit.Pick(r, nodes)
	someVals := func() []string { return []string{g.nonEmptyStr()} }
	emptyVals := func() []string {
		if r.Bool() {
			return nil
		}
		return []string{}
	}
	if r.Chance(1, 8) {
		n.Op = kit.Pick(r, []string{"AND", "nand", "xor", " and", "leaf", "Not", "or ", "&&"})
		return "unknown-op"
	}
	if n.Op == "" {
		for tries := 0; tries < 8; tries++ {
			switch r.Intn(8) {
			case 0:
				n.Cmp = ""
				return "leaf-without-cmp"
			case 1:
				n.Cmp = kit.Pick(r, []string{"EQ", "equals", "=", "exists", "and", "ne", "gt ", "lten", "not"})
				return "unknown-cmp"
			case 2:
				if isSingleValOp(n.Cmp) {
					n.Val = ""
					return "single-value-op-without-val"
				}
			case 3:
				if isSingleValOp(n.Cmp) {
					n.Vals = someVals()
					return "single-value-op-with-vals"
				}
			case 4:
				if isSetOp(n.Cmp) {
					n.Vals = emptyVals()
					return "set-op-without-vals"
				}
			case 5:
				if isSetOp(n.Cmp) {
					n.Val = g.nonEmptyStr()
					return "set-op-with-val"
				}
			case 6:
				if isExistOp(n.Cmp) {
					if r.Bool() {
						n.Val = g.nonEmptyStr()
					} else {
						n.Vals = someVals()
					}
					return "exists-op-with-val-or-vals"
				}
			case 7:
				if !isExistOp(n.Cmp) {
					n.Key = ""
					return "leaf-without-key"
				}
			}
		}
		n.Cmp = ""
		return "leaf-without-cmp"
	}
	// logical node
	if g.nilNodes && r.Chance(1, 2) {
		switch {
		case len(n.Nodes) == 0:
			n.Nodes = []*FN{nil}
		case n.Op == "not" || r.Bool():
			n.Nodes[r.Intn(len(n.Nodes))] = nil
		default:
			n.Nodes = append(n.Nodes, nil)
		}
		return "nil-node"
	}
	if n.Op == "not" {
		if r.Bool() {
			n.Nodes = nil
		} else {
			n.Nodes = append(n.Nodes, g.tree(1))
		}
		return "not-arity"
	}
	if r.Bool() {
		n.Nodes = nil
	} else {
		n.Nodes = []*FN{}
	}
	return "and-or-without-children"
}

// addExtras sets fields the documentation calls meaningless for the node kind (outcome unspecified).
func (g *gen) addExtras(root *FN) {
	var nodes []*FN
	collect(root, &nodes)
	n := kit.Pick(g.r, nodes)
	if n.Op == "" {
		n.Nodes = []*FN{g.tree(1)}
		return
	}
	switch g.r.Intn(4) {
	case 0:
		n.Key = "a"
	case 1:
		n.Cmp = "eq"
	case 2:
		n.Val = "x"
	default:
		n.Vals = []string{"x"}
	}
}

func (g *gen) tags(root *FN) map[string]string {
	r := g.r
	// values mentioned by leaves, per key
	var nodes []*FN
	collect(root, &nodes)
	mention := map[string][]string{}
	for _, n := range nodes {
		if n.Op == "" {
			if n.Val != "" {
				mention[n.Key] = append(mention[n.Key], n.Val)
			}
			mention[n.Key] = append(mention[n.Key], n.Vals...)
		}
	}
	t := map[string]string{}
	keys := g.keys
	if r.Chance(1, 5) {
		keys = append(append([]string{}, keys...), "")
	}
	for _, k := range keys {
		if !r.Chance(3, 5) {
			continue // absent key
		}
		var v string
		m := mention[k]
		switch {
		case len(m) > 0 && r.Chance(1, 2):
			v = kit.Pick(r, m)
			switch r.Intn(6) {
			case 0:
				v += kit.Pick(r, g.strs)
			case 1:
				v = kit.Pick(r, g.strs) + v
			case 2:
				if ni := numeral(v); ni.grammar {
					v = kit.Pick(r, g.variants(v))
				}
			}
		case r.Chance(1, 8):
			v = ""
		default:
			v = g.anyVal()
		}
		t[k] = v
	}
	return t
}

func deepCopy(n *FN, r *kit.Rand) *FN {
	if n == nil {
		return nil
	}
	c := &FN{Op: strings.Clone(n.Op), Key: strings.Clone(n.Key), Cmp: strings.Clone(n.Cmp), Val: strings.Clone(n.Val)}
	if len(n.Vals) > 0 {
		c.Vals = make([]string, 0, len(n.Vals)+r.Intn(3))
		for _, v := range n.Vals {
			c.Vals = append(c.Vals, strings.Clone(v))
		}
	} else if r.Bool() {
		c.Vals = []string{} // an empty list is an empty list
	}
	if len(n.Nodes) > 0 {
		c.Nodes = make([]*FN, 0, len(n.Nodes)+r.Intn(3))
		for _, ch := range n.Nodes {
			c.Nodes = append(c.Nodes, deepCopy(ch, r))
		}
	} else if r.Bool() {
		c.Nodes = []*FN{}
	}
	return c
}

func toJSON(n *FN) string {
	b, err := json.Marshal(n)
	if err != nil {
		return fmt.Sprintf("<%v>", err)
	}
	return string(b)
}

func fromJSON(s string) (*FN, error) {
	if strings.TrimSpace(s) == "null" {
		return nil, nil
	}
	var n FN
	l := jlexer.Lexer{Data: []byte(s)}
	n.UnmarshalEasyJSON(&l)
	if err := l.Error(); err != nil {
		return nil, err
	}
	return &n, nil
}

func validUTF8(n *FN) bool {
	if n == nil {
		return true
	}
	if !utf8.ValidString(n.Op) || !utf8.ValidString(n.Key) || !utf8.ValidString(n.Cmp) || !utf8.ValidString(n.Val) {
		return false
	}
	for _, v := range n.Vals {
		if !utf8.ValidString(v) {
			return false
		}
	}
	for _, ch := range n.Nodes {
		if !validUTF8(ch) {
			return false
		}
	}
	return true
}

func sameShape(a, b *FN) bool {
	if a == nil || b == nil {
		return a == nil && b == nil
	}
	if a.Op != b.Op || a.Key != b.Key || a.Cmp != b.Cmp || a.Val != b.Val || len(a.Vals) != len(b.Vals) || len(a.Nodes) != len(b.Nodes) {
		return false
	}
	for i := range a.Vals {
		if a.Vals[i] != b.Vals[i] {
			return false
		}
	}
	for i := range a.Nodes {
		if !sameShape(a.Nodes[i], b.Nodes[i]) {
			return false
		}
	}
	return true
}

// ---------------------------------------------------------------------------------------------
// Checker

const (
	zoneA = 160 // cases [0,zoneA): "" allowed inside Vals of in/nin
	zoneB = 160 // cases [zoneA,zoneA+zoneB): nil nodes injected

	classInMissing = "in-operator-missing-key-matches-empty-string"
	classNilPanic  = "validate-panics-on-nil-node"
)

type checker struct {
	c        *kit.Case
	cnt      map[string]int
	sigs     map[string]struct{}
	reported map[string]bool // confined classes: reported once per case, then the case goes on
	stop     bool            // any other violation: stop the case
	evals    int
}

func (k *checker) count(name string) { k.cnt[name]++ }

func (k *checker) violation(class, msg string, root *FN, tags map[string]string, extra map[string]any) {
	confined := class == classInMissing || class == classNilPanic
	if confined {
		if k.reported[class] {
			k.count("repeat_of_reported_class_suppressed")
			return
		}
		k.reported[class] = true
	} else {
		k.stop = true
	}
	d := map[string]any{"filter": json.RawMessage(toJSON(root))}
	if tags != nil {
		d["tags"] = tags
	}
	for kk, v := range extra {
		d[kk] = v
	}
	k.c.Violation(class, msg, d)
}

// checkNode compares engine and reference on every subtree (children first).
// known=false: the value of this subtree is not compared further up (undefined numeral, or a
// mismatch that has already been reported below).
func (k *checker) checkNode(root, n *FN, tags map[string]string) (val bool, known bool) {
	known = true
	var ref tri
	if n.Op == "" {
		ref = refLeaf(n, tags)
		_, present := tags[n.Key]
		if !present {
			k.count("leaf_eval_key_missing")
			if isSetOp(n.Cmp) {
				for _, v := range n.Vals {
					if v == "" {
						k.count("in_nin_missing_key_with_empty_string_in_vals")
						break
					}
				}
			}
		} else if tags[n.Key] == "" {
			k.count("leaf_eval_value_empty_string")
		}
		if isNumOp(n.Cmp) && present {
			a, b := numeral(tags[n.Key]), numeral(n.Val)
			for i, x := range []numInfo{a, b} {
				str := []string{tags[n.Key], n.Val}[i]
				if x.oneSided || x.selfCmp != x.accepted {
					k.violation("numeric-acceptance-inconsistent", fmt.Sprintf("%q: compares with itself=%v, with another numeral=%v (one-sided=%v): a string is either a numeral the engine accepts in every numeric comparison or in none", str, x.selfCmp, x.accepted, x.oneSided), root, tags, map[string]any{"string": str})
					return false, false
				}
			}
			switch {
			case a.accepted && b.accepted && a.grammar && b.grammar:
				k.count("numeric_both_numerals_accepted")
				if a.rat.Cmp(b.rat) == 0 && tags[n.Key] != n.Val {
					k.count("numeric_equal_value_different_spelling")
				}
			case a.accepted && b.accepted:
				k.count("numeric_engine_accepts_non_decimal_spelling")
			default:
				k.count("numeric_numeral_rejected_by_engine")
				if (a.grammar && !a.accepted) || (b.grammar && !b.accepted) {
					k.count("numeric_decimal_numeral_rejected_by_engine")
				}
			}
		}
	} else {
		vals := make([]tri, len(n.Nodes))
		for i, ch := range n.Nodes {
			v, kn := k.checkNode(root, ch, tags)
			if k.stop {
				return false, false
			}
			if !kn {
				vals[i] = triUnknown
				known = false
			} else {
				vals[i] = b2t(v)
			}
		}
		if !known {
			ref = triUnknown
		} else {
			switch n.Op {
			case "and":
				ref = triTrue
				for _, v := range vals {
					if v == triFalse {
						ref = triFalse
					}
				}
			case "or":
				ref = triFalse
				for _, v := range vals {
					if v == triTrue {
						ref = triTrue
					}
				}
			case "not":
				ref = b2t(vals[0] == triFalse)
			}
		}
	}
	k.evals++
	got, err, p := engineMatch(n, tags)
	sub := map[string]any{"subtree": json.RawMessage(toJSON(n))}
	if p != nil {
		k.violation("match-panics-on-validated-tree", fmt.Sprintf("Match panicked on a validated tree: %v", p), root, tags, sub)
		return false, false
	}
	if err != nil {
		k.violation("match-errors-on-validated-tree", fmt.Sprintf("Match returned error on a validated tree: %v", err), root, tags, sub)
		return false, false
	}
	if ref == triUnknown {
		k.count("eval_value_undefined_skipped")
		return got, false
	}
	name := n.Op
	if n.Op == "" {
		name = n.Cmp
	}
	if got {
		k.count("op_" + name + "_true")
	} else {
		k.count("op_" + name + "_false")
	}
	if got != (ref == triTrue) {
		sub["engine"], sub["reference"] = got, ref == triTrue
		if n.Op == "" {
			_, present := tags[n.Key]
			if isSetOp(n.Cmp) && !present {
				k.violation(classInMissing, fmt.Sprintf("%s on a key absent from the tags returned %v; a missing key is in no set (engine looks up \"\" in vals)", n.Cmp, got), root, tags, sub)
				return got, false
			}
			k.violation("match-leaf-"+n.Cmp+"-differs", fmt.Sprintf("leaf %s: engine %v, reference %v", n.Cmp, got, ref == triTrue), root, tags, sub)
			return got, false
		}
		k.violation("match-"+n.Op+"-differs", fmt.Sprintf("%s node: engine %v, reference %v although all children agree", n.Op, got, ref == triTrue), root, tags, sub)
		return got, false
	}
	return got, true
}

func shapeSig(n *FN) (depth, nodes int, mask uint32) {
	if n == nil {
		return 0, 0, 0
	}
	nodes = 1
	switch n.Op {
	case "":
		for i, o := range leafOps {
			if o == n.Cmp {
				mask |= 1 << i
			}
		}
	case "and":
		mask |= 1 << 13
	case "or":
		mask |= 1 << 14
	case "not":
		mask |= 1 << 15
	}
	for _, ch := range n.Nodes {
		d, c, m := shapeSig(ch)
		if d > depth {
			depth = d
		}
		nodes += c
		mask |= m
	}
	return depth + 1, nodes, mask
}

func (k *checker) oneTree(g *gen, ti int) {
	r, c := g.r, k.c
	// 1. generate
	var root *FN
	label := ""
	extras := false
	root = g.tree(r.Range(1, 4))
	mode := r.Intn(20)
	switch {
	case mode < 11: // well-formed by construction
	case mode < 17: // one defect
		label = g.breakOne(root)
	case mode < 19: // several defects
		label = g.breakOne(root)
		for i := r.Range(1, 2); i > 0; i-- {
			g.breakOne(root)
		}
		label = "multi:" + label
	default:
		extras = true
		g.addExtras(root)
	}
	viaJSON := false
	if root != nil && validUTF8(root) && ((g.nilNodes && hasNil(root) && r.Bool()) || r.Chance(1, 10)) {
		// what a JSON client sends: decode with the protocol's own decoder
		dec, err := fromJSON(toJSON(root))
		if err != nil || !sameShape(dec, root) {
			c.Inconclusive(fmt.Sprintf("JSON round trip of a tree failed: %v", err))
			return
		}
		if hasNil(dec) {
			k.count("json_null_decoded_as_nil_child")
		}
		k.count("tree_via_protocol_json_decoder")
		hOrig := hashOf(root)
		hDec := hashOf(dec)
		if hOrig.ok && hDec.ok && hOrig.h != hDec.h {
			k.violation("hash-differs-for-structurally-equal-trees", "Hash(tree) != Hash(JSON round trip of tree)", root, nil, nil)
			return
		}
		root = dec
		viaJSON = true
	}
	_ = viaJSON

	// 2. validation
	wf, why := refWF(root)
	k.evals++
	err, p := engineValidate(root)
	if hasNil(root) {
		k.count("tree_with_nil_node")
	}
	if p != nil {
		if hasNil(root) {
			k.violation(classNilPanic, fmt.Sprintf("Validate panicked instead of rejecting a tree with a nil node (JSON null child): %v", p), root, nil, map[string]any{"injected": label})
		} else {
			k.violation("validate-panics", fmt.Sprintf("Validate panicked: %v", p), root, nil, map[string]any{"injected": label})
			return
		}
	}
	accepted := err == nil && p == nil
	switch {
	case extras:
		if accepted {
			k.count("validate_unspecified_extras_accepted")
		} else {
			k.count("validate_unspecified_extras_rejected")
		}
	case p != nil:
		// reported above
	case accepted && !wf:
		k.violation("validate-accepts-ill-formed-tree:"+why, "Validate accepted a tree that is not well-formed: "+why, root, nil, map[string]any{"injected": label})
		return
	case !accepted && wf:
		k.violation("validate-rejects-well-formed-tree", fmt.Sprintf("Validate rejected a well-formed tree: %v", err), root, nil, nil)
		return
	case accepted:
		k.count("validate_accept")
	default:
		k.count("validate_reject")
		k.count("validate_reject_" + why)
		k.sigs["reject "+why] = struct{}{}
	}

	// 3. hash of structurally equal trees
	if root != nil {
		h1 := hashOf(root)
		cp := deepCopy(root, r)
		h2 := hashOf(cp)
		h3 := hashOf(root)
		k.evals++
		switch {
		case !h1.ok || !h2.ok || !h3.ok:
			if hasNil(root) {
				k.count("hash_panics_on_nil_node_tree_unvalidated")
			} else {
				k.violation("hash-panics", fmt.Sprintf("Hash panicked: %v %v %v", h1.p, h2.p, h3.p), root, nil, nil)
				return
			}
		case h1.h != h2.h:
			k.violation("hash-differs-for-structurally-equal-trees", "Hash(tree) != Hash(deep copy of tree)", root, nil, map[string]any{"copy": json.RawMessage(toJSON(cp))})
			return
		case h1.h != h3.h:
			k.violation("hash-not-deterministic", "two Hash calls on the same tree differ", root, nil, nil)
			return
		default:
			k.count("hash_equal_for_deep_copy")
		}
		if accepted && !hasNil(root) && r.Chance(1, 4) {
			// protobuf round trip is another structurally equal tree
			if b, err := root.MarshalVT(); err == nil {
				var dec FN
				if err := dec.UnmarshalVT(b); err == nil && sameShape(&dec, root) {
					if hd := hashOf(&dec); hd.ok && hd.h != h1.h {
						k.violation("hash-differs-for-structurally-equal-trees", "Hash(tree) != Hash(protobuf round trip of tree)", root, nil, nil)
						return
					}
					k.count("hash_equal_for_protobuf_roundtrip")
				}
			}
		}
	}

	// 4. matching
	if !accepted {
		if root != nil {
			// out of the property's scope (only validated trees are matched); observed only
			_, merr, mp := engineMatch(root, g.tags(root))
			switch {
			case mp != nil:
				k.count("match_on_unvalidated_tree_panics")
			case merr != nil:
				k.count("match_on_unvalidated_tree_errors")
			default:
				k.count("match_on_unvalidated_tree_returns_value")
			}
		}
		return
	}
	depth, nodes, mask := shapeSig(root)
	nTags := 6
	for j := 0; j < nTags; j++ {
		tags := g.tags(root)
		if extras {
			_, merr, mp := engineMatch(root, tags)
			k.evals++
			if mp != nil {
				k.violation("match-panics-on-validated-tree", fmt.Sprintf("Match panicked on a validated tree: %v", mp), root, tags, nil)
				return
			}
			if merr != nil {
				k.violation("match-errors-on-validated-tree", fmt.Sprintf("Match returned error on a validated tree: %v", merr), root, tags, nil)
				return
			}
			continue
		}
		val, known := k.checkNode(root, root, tags)
		if k.stop {
			return
		}
		if known {
			k.sigs[fmt.Sprintf("m d%d n%d ops%x r%v t%d", depth, nodes, mask, val, len(tags))] = struct{}{}
			k.count("match_tree_evaluations")
		}
		if ti == 0 && j == 0 && c.Index%97 == 0 && known {
			c.Sample(map[string]any{"filter": json.RawMessage(toJSON(root)), "tags": tags, "match": val})
		}
		// 5. metamorphic (engine against itself)
		if j < 2 {
			k.metamorphic(g, root, tags, val)
			if k.stop {
				return
			}
		}
	}
}

func (k *checker) mustMatch(what string, n *FN, tags map[string]string) (bool, bool) {
	if err, p := engineValidate(n); err != nil || p != nil {
		k.violation("validate-rejects-well-formed-tree", fmt.Sprintf("Validate rejected %s of a validated tree: %v %v", what, err, p), n, nil, nil)
		return false, false
	}
	v, err, p := engineMatch(n, tags)
	k.evals++
	if p != nil {
		k.violation("match-panics-on-validated-tree", fmt.Sprintf("Match panicked on %s: %v", what, p), n, tags, nil)
		return false, false
	}
	if err != nil {
		k.violation("match-errors-on-validated-tree", fmt.Sprintf("Match returned error on %s: %v", what, err), n, tags, nil)
		return false, false
	}
	return v, true
}

func not(n *FN) *FN { return &FN{Op: "not", Nodes: []*FN{n}} }

func (k *checker) metamorphic(g *gen, root *FN, tags map[string]string, val bool) {
	base, ok := k.mustMatch("the tree", root, tags)
	if !ok {
		return
	}
	_ = val
	v, ok := k.mustMatch("not(not(t))", not(not(root)), tags)
	if !ok {
		return
	}
	if v != base {
		k.violation("metamorphic-double-negation", fmt.Sprintf("Match(not(not t))=%v but Match(t)=%v", v, base), root, tags, nil)
		return
	}
	k.count("double_negation_checked")
	other := g.tree(2)
	if w, _ := refWF(other); !w {
		return
	}
	for _, op := range []string{"and", "or"} {
		dual := "or"
		if op == "or" {
			dual = "and"
		}
		lhs := not(&FN{Op: op, Nodes: []*FN{root, other}})
		rhs := &FN{Op: dual, Nodes: []*FN{not(root), not(other)}}
		a, ok := k.mustMatch("not("+op+"(a,b))", lhs, tags)
		if !ok {
			return
		}
		b, ok := k.mustMatch(dual+"(not a,not b)", rhs, tags)
		if !ok {
			return
		}
		if a != b {
			k.violation("metamorphic-de-morgan", fmt.Sprintf("Match(not(%s(a,b)))=%v but Match(%s(not a,not b))=%v", op, a, dual, b), lhs, tags, nil)
			return
		}
		k.count("de_morgan_checked")
	}
}

type hres struct {
	h  [32]byte
	ok bool
	p  any
}

func hashOf(n *FN) (res hres) {
	defer func() {
		if r := recover(); r != nil {
			res.ok, res.p = false, r
		}
	}()
	res.h = filter.Hash(n)
	res.ok = true
	return
}

const treesPerCase = 150

func runCase(c *kit.Case) {
	k := &checker{c: c, cnt: map[string]int{}, sigs: map[string]struct{}{}, reported: map[string]bool{}}
	g := newGen(c)
	// deterministic directed cases: every leaf operator against absent key, empty value, equal value
	if c.Index%16 == 0 {
		k.directed(g)
	}
	for ti := 0; ti < treesPerCase && !k.stop; ti++ {
		k.oneTree(g, ti)
	}
	c.Eval(k.evals)
	names := make([]string, 0, len(k.cnt))
	for n := range k.cnt {
		names = append(names, n)
	}
	sort.Strings(names)
	for _, n := range names {
		c.Count(n, k.cnt[n])
	}
	for s := range k.sigs {
		c.Nontrivial(s)
	}
}

// directed: each operator on a single leaf against {absent, "", equal, other} and numerals pairwise.
func (k *checker) directed(g *gen) {
	for _, op := range leafOps {
		var n *FN
		switch {
		case isSetOp(op):
			n = &FN{Key: "a", Cmp: op, Vals: []string{"x", "1.0"}}
			if g.emptyInVals {
				n.Vals = append(n.Vals, "")
			}
		case isExistOp(op):
			n = &FN{Key: "a", Cmp: op}
		case isNumOp(op):
			n = &FN{Key: "a", Cmp: op, Val: "1.0"}
		default:
			n = &FN{Key: "a", Cmp: op, Val: "x"}
		}
		if err, p := engineValidate(n); err != nil || p != nil {
			k.violation("validate-rejects-well-formed-tree", fmt.Sprintf("Validate rejected a plain %s leaf: %v %v", op, err, p), n, nil, nil)
			return
		}
		for _, tags := range []map[string]string{{}, {"b": "x"}, {"a": ""}, {"a": "x"}, {"a": "1"}, {"a": "1.00"}, {"a": "xx"}, {"a": "0.99"}, {"a": "2"}, {"a": "abc"}} {
			k.checkNode(n, n, tags)
			if k.stop {
				return
			}
		}
	}
	// numerals pairwise from this case's pool
	for _, a := range g.nums {
		for _, b := range g.nums {
			if b == "" {
				continue
			}
			n := &FN{Key: "p", Cmp: kit.Pick(g.r, []string{"gt", "gte", "lt", "lte"}), Val: b}
			k.checkNode(n, n, map[string]string{"p": a})
			if k.stop {
				return
			}
		}
	}
}

func TestC15(t *testing.T) {
	req := []string{"validate_accept", "validate_reject", "hash_equal_for_deep_copy", "hash_equal_for_protobuf_roundtrip",
		"double_negation_checked", "de_morgan_checked", "match_tree_evaluations",
		"leaf_eval_key_missing", "leaf_eval_value_empty_string", "in_nin_missing_key_with_empty_string_in_vals",
		"tree_with_nil_node", "json_null_decoded_as_nil_child",
		"numeric_both_numerals_accepted", "numeric_numeral_rejected_by_engine", "numeric_equal_value_different_spelling",
		"op_and_true", "op_and_false", "op_or_true", "op_or_false", "op_not_true", "op_not_false"}
	for _, o := range leafOps {
		req = append(req, "op_"+o+"_true", "op_"+o+"_false")
	}
	for _, why := range []string{"leaf-without-cmp", "unknown-cmp", "single-value-op-without-val", "single-value-op-with-vals", "set-op-without-vals",
		"set-op-with-val", "exists-op-with-val-or-vals", "leaf-without-key", "and-or-without-children", "not-arity", "unknown-op"} {
		req = append(req, "validate_reject_"+why)
	}
	kit.Main(t, kit.Spec{
		ID:    "C15",
		Level: "exploration",
		Rule: fmt.Sprintf("each case draws a vocabulary (2-5 keys, strings incl. \"\", numerals from an edge pool of %d spellings plus random numerals with equal-value/neighbour variants) and %d filter trees of depth<=4 over all 13 leaf operators and and/or/not: 55%% well-formed by construction, 30%% with exactly one injected ill-formedness, 10%% several, 5%% with fields the documentation calls meaningless (outcome unspecified, only 'validated => Match does not fail' is required). "+
			"Cases [0,%d) additionally put \"\" into vals of in/nin, cases [%d,%d) inject nil child nodes (what JSON null produces); 10%% of trees (50%% of nil-bearing ones) pass through the protocol's JSON decoder. "+
			"Per tree: Validate vs reference well-formedness; Hash(tree)==Hash(deep copy / JSON / protobuf round trip); for validated trees 6 tag maps (each key absent with p=0.4, values biased to those the leaves mention, numerals respelled) and on EVERY subtree engine Match vs reference; double negation and de Morgan on 2 of the maps. Every 16th case also runs each operator on fixed tag maps and all numeral pairs of its vocabulary. "+
			"evaluations = Validate + Hash + Match comparisons. Non-trivial = a validated tree whose Match value was compared with the reference (signature: depth, node count, operator set, result, tag count) or a rejection (signature: first broken rule).",
			len(numPool), treesPerCase, zoneA, zoneA, zoneA+zoneB),
		Assumptions: []string{
			"reference well-formedness = the rules documented on protocol.FilterNode and filter.Validate (leaf needs known cmp; eq/neq/sw/ew/ct/gt/gte/lt/lte need non-empty val and no vals; in/nin need non-empty vals and no val; ex/nex neither; key required except ex/nex; and/or >=1 child; not exactly 1; nil node ill-formed); fields meaningless for a node kind are unspecified and not judged",
			"'numerals the engine accepts' is probed per string through gte/lte x x; exact value by math/big.Rat for spellings [+-]digits[.digits]; a string the engine accepts outside that grammar has no defined value and comparisons on it are only counted",
			"Match on trees Validate rejected is outside the property (counted, never a violation)",
			"single goroutine, plain build (no -race): the three functions are pure",
		},
		Cases:           map[string]int{"quick": 6000, "thorough": 90000},
		RequireCounters: req,
		Run:             runCase,
	})
}
