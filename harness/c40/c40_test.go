// C40: Deferred jobs run until they succeed.
//
// internal/dissolve.Dissolver in synctest bubbles: jobs with scripted failure counts and virtual
// run times, 1..64 workers, submit bursts from several goroutines, Close at random virtual instants.
// The oracle reads the execution log (totally ordered by a logical clock taken under one mutex).
package c40

import (
	"errors"
	"fmt"
	"runtime"
	"strings"
	"sync"
	"sync/atomic"
	"testing"
	"testing/synctest"
	"time"

	"github.com/centrifugal/centrifuge/internal/dissolve"
	"github.com/centrifugal/centrifuge/verifx/kit"
)

type jobSpec struct {
	ID       int           `json:"id"`
	Fails    int           `json:"fails"`  // the first Fails executions return an error
	Dur      time.Duration `json:"dur_ns"` // virtual run time of every execution
	SubmitAt time.Duration `json:"submit_at_ns"`
	Burst    int           `json:"burst"`
	Late     bool          `json:"late,omitempty"` // submitted after Close returned
}

type evKind uint8

const (
	evStart evKind = iota
	evEndOK
	evEndFail
	evSubmitCall
	evSubmitOK
	evSubmitErr
	evCloseCall
	evCloseRet
	evSettle
	evRun
)

var kindName = map[evKind]string{evStart: "start", evEndOK: "end-ok", evEndFail: "end-fail", evSubmitCall: "submit-call", evSubmitOK: "submit-ok",
	evSubmitErr: "submit-err", evCloseCall: "close-call", evCloseRet: "close-returned", evSettle: "settled", evRun: "run"}

type event struct {
	Seq  int
	At   time.Duration
	Kind evKind
	Job  int
}

func (e event) String() string {
	return fmt.Sprintf("#%d t=%s %s job=%d", e.Seq, e.At, kindName[e.Kind], e.Job)
}

type recorder struct {
	mu    sync.Mutex
	t0    time.Time
	evs   []event
	execs []int // executions started per job
}

// add appends an event; never blocks while holding mu.
func (r *recorder) add(k evKind, job int) (seq int, nth int) {
	r.mu.Lock()
	seq = len(r.evs)
	r.evs = append(r.evs, event{Seq: seq, At: time.Since(r.t0), Kind: k, Job: job})
	if k == evStart {
		r.execs[job]++
		nth = r.execs[job]
	}
	r.mu.Unlock()
	return
}

var errScripted = errors.New("scripted failure")

type plan struct {
	Workers   int           `json:"workers"`
	RunAt     time.Duration `json:"run_at_ns"`
	CloseMode string        `json:"close"` // none | mid | early
	CloseAt   time.Duration `json:"close_at_ns"`
	Jobs      []jobSpec     `json:"jobs"`
	bursts    [][]int
	late      []int
	horizon   time.Duration
}

var durChoices = []time.Duration{0, 0, time.Millisecond, 3 * time.Millisecond, 10 * time.Millisecond, 10 * time.Millisecond, 50 * time.Millisecond, 1500 * time.Microsecond}
var failChoices = []int{0, 0, 0, 1, 1, 2, 3, 5, 8}
var workerChoices = []int{1, 1, 2, 2, 3, 4, 5, 8, 16, 32, 64}

func makePlan(r *kit.Rand) *plan {
	p := &plan{}
	if r.Chance(1, 4) {
		p.Workers = r.Range(1, 64)
	} else {
		p.Workers = kit.Pick(r, workerChoices)
	}
	nb := r.Range(1, 5)
	var work time.Duration
	var lastSubmit time.Duration
	for b := 0; b < nb; b++ {
		at := time.Duration(0)
		if b > 0 || r.Bool() {
			at = time.Duration(r.Intn(60)) * time.Millisecond
			if r.Chance(1, 3) {
				at += time.Duration(r.Intn(1000)) * time.Microsecond
			}
		}
		size := r.Range(1, 12)
		if r.Chance(1, 8) {
			size = r.Range(30, 150) // forces the ring buffer through several resizes
		}
		var ids []int
		for i := 0; i < size; i++ {
			j := jobSpec{ID: len(p.Jobs), Fails: kit.Pick(r, failChoices), Dur: kit.Pick(r, durChoices), SubmitAt: at, Burst: b}
			work += time.Duration(j.Fails+1) * j.Dur
			p.Jobs = append(p.Jobs, j)
			ids = append(ids, j.ID)
		}
		if at > lastSubmit {
			lastSubmit = at
		}
		p.bursts = append(p.bursts, ids)
	}
	if r.Chance(1, 5) {
		p.RunAt = time.Duration(r.Intn(40)) * time.Millisecond
	}
	makespan := lastSubmit + p.RunAt + work/time.Duration(p.Workers) + 60*time.Millisecond
	switch x := r.Intn(10); {
	case x < 4:
		p.CloseMode = "none"
	case x < 9:
		p.CloseMode = "mid"
		p.CloseAt = time.Duration(r.Intn(int(makespan/time.Microsecond)+1)) * time.Microsecond
		if r.Bool() { // on a millisecond boundary: coincides with job ends and bursts
			p.CloseAt = p.CloseAt.Truncate(time.Millisecond)
		}
	default:
		p.CloseMode = "early"
		p.CloseAt = 0
	}
	if p.CloseMode != "none" {
		for i := r.Range(0, 3); i > 0; i-- {
			j := jobSpec{ID: len(p.Jobs), Fails: r.Intn(2), Dur: kit.Pick(r, durChoices), Late: true, Burst: -1}
			p.Jobs = append(p.Jobs, j)
			p.late = append(p.late, j.ID)
		}
	}
	p.horizon = lastSubmit + p.RunAt + work + 200*time.Millisecond // even one worker finishes everything by then
	return p
}

// handoffCase (real time, no bubble): jobs are submitted one at a time to an otherwise idle Dissolver
// with 1-2 workers, each as soon as the previous one has succeeded plus a varying delay of a few
// nanoseconds, so that Submit lands all over the path a worker takes from finishing a job to parking in
// the queue. A job that sits in the queue while every worker is parked is a lost wake-up. The verdict
// does not depend on timing: a late job only makes the case look at a goroutine dump, and the violation
// is "every worker goroutine is parked in sync.Cond.Wait inside queue.Wait, and the job submitted before
// the dump is still not executed after it".
func handoffCase(c *kit.Case) {
	workers := 1 + (c.Index/handoffEvery)%2
	jobs := 15000
	if c.Tier == "thorough" {
		jobs = 60000
	}
	// goroutines of dissolvers of earlier cases that are still around are not this case's workers
	foreign := map[string]bool{}
	for id := range queueWaiters() {
		foreign[id] = true
	}
	d := dissolve.New(workers)
	_ = d.Run()
	defer func() { _ = d.Close() }()
	var completed atomic.Int64
	var sink atomic.Int64
	r := c.R
	base := r.Intn(61)
	for i := 0; i < jobs; i++ {
		for k := 0; k < (i+base)%61; k++ {
			sink.Add(1)
		}
		failOnce := i%3 == 0
		failed := false
		if err := d.Submit(func() error {
			if failOnce && !failed {
				failed = true
				return errScripted
			}
			completed.Add(1)
			return nil
		}); err != nil {
			c.Violation("c40-submit-rejected-before-close", fmt.Sprintf("Submit #%d on an open dissolver returned %v", i, err), nil)
			return
		}
		started := time.Now()
		for spins := 1; completed.Load() != int64(i+1); spins++ {
			if spins%4096 != 0 {
				continue
			}
			runtime.Gosched()
			waited := time.Since(started)
			if waited < 300*time.Millisecond {
				continue
			}
			// late: is it slow, or stranded?
			parked, other := 0, 0
			for id, isParked := range queueWaiters() {
				switch {
				case foreign[id]:
				case isParked:
					parked++
				default:
					other++
				}
			}
			if parked == workers && other == 0 && completed.Load() != int64(i+1) {
				c.Count("handoff_jobs", i)
				c.Violation("c40-job-stranded-in-queue-while-all-workers-parked", fmt.Sprintf("job #%d (workers=%d) was accepted by an open dissolver %s ago and has not run, while all %d worker goroutines are parked in sync.Cond.Wait inside queue.Wait: the wake-up for it was lost", i, workers, waited.Round(time.Millisecond), workers), map[string]any{"workers": workers, "job": i, "spin_delay": (i + base) % 61})
				return
			}
			c.Count("handoff_late_but_worker_active", 1)
			if waited > 3*time.Minute {
				c.Inconclusive(fmt.Sprintf("handoff case: job #%d not executed after %s although a worker is not parked", i, waited))
				return
			}
			time.Sleep(20 * time.Millisecond)
		}
	}
	c.Eval(jobs)
	c.Count("handoff_cases", 1)
	c.Count("handoff_jobs", jobs)
	c.Nontrivial(fmt.Sprintf("handoff w%d", workers))
}

// queueWaiters reads a goroutine dump and returns, for every goroutine that is inside the dissolver
// queue's Wait, whether it is parked in sync.Cond.Wait (true) or running / runnable (false).
func queueWaiters() map[string]bool {
	buf := make([]byte, 4<<20)
	dump := string(buf[:runtime.Stack(buf, true)])
	out := map[string]bool{}
	for _, g := range strings.Split(dump, "\n\n") {
		if !strings.HasPrefix(g, "goroutine ") || !strings.Contains(g, "internal/dissolve.(*queueImpl).Wait") {
			continue
		}
		head := strings.SplitN(g, "\n", 2)[0]
		id := strings.Fields(head)[1]
		out[id] = strings.Contains(head, "[sync.Cond.Wait")
	}
	return out
}

// closeRaceCase: workers that have been woken for a job are held at the yield point between their
// wake-up and their dequeue (no lock is held there), Close runs to completion, then they are released.
// Nothing was dequeued before Close returned, so no job may be executed at all: a job that runs was
// handed out by a closed queue.
func closeRaceCase(c *kit.Case) {
	r := c.R
	workers := r.Range(1, 3)
	nJobs := r.Range(1, 4)
	d := dissolve.New(workers)
	_ = d.Run()
	synctest.Wait() // every worker is parked in the queue
	var reached, executed atomic.Int64
	var armed atomic.Bool
	release := make(chan struct{})
	dissolve.VerifSetHook(func(p string) {
		if p == "queue.beforeRemove" && armed.Load() {
			reached.Add(1)
			<-release
		}
	})
	defer dissolve.VerifSetHook(nil)
	armed.Store(true)
	accepted := 0
	for i := 0; i < nJobs; i++ {
		if d.Submit(func() error { executed.Add(1); return nil }) == nil {
			accepted++
		}
	}
	synctest.Wait() // the woken workers sit at the yield point, before their dequeue
	held := int(reached.Load())
	_ = d.Close()
	armed.Store(false)
	close(release)
	synctest.Wait()
	time.Sleep(50 * time.Millisecond)
	synctest.Wait()
	c.Eval(1)
	c.Count("close_race_cases", 1)
	c.Count("workers_held_between_wakeup_and_dequeue_while_close_ran", held)
	if n := executed.Load(); n > 0 {
		c.Violation("c40-job-dequeued-from-closed-queue", fmt.Sprintf("%d of %d accepted jobs were executed although Close had returned before any worker dequeued anything (%d of %d workers were held between their wake-up and their dequeue while Close ran)", n, accepted, held, workers), map[string]any{"workers": workers, "jobs": nJobs, "held": held})
	}
	if held == 0 {
		c.Inconclusive("close race case: no worker reached the yield point queue.beforeRemove")
	}
	c.Nontrivial(fmt.Sprintf("closerace w%d j%d h%d", workers, nJobs, held))
}

const handoffEvery = 40

func runCase(c *kit.Case) {
	every := handoffEvery
	if c.Tier == "thorough" {
		every = 10*handoffEvery + 40 // 136 hand-off cases of 60 000 jobs: the real-time part stays within minutes
	}
	if c.Index%every == every-1 {
		handoffCase(c)
		return
	}
	if c.Index%20 == 7 {
		kit.RunBubble(c, func() { closeRaceCase(c) })
		return
	}
	kit.RunBubble(c, func() { bubbleCase(c) })
}

func bubbleCase(c *kit.Case) {
	p := makePlan(c.R)
	rec := &recorder{t0: time.Now(), execs: make([]int, len(p.Jobs))}
	d := dissolve.New(p.Workers)

	mkJob := func(j jobSpec) dissolve.Job {
		return func() error {
			_, nth := rec.add(evStart, j.ID)
			if j.Dur > 0 {
				time.Sleep(j.Dur)
			}
			if nth <= j.Fails {
				rec.add(evEndFail, j.ID)
				return errScripted
			}
			rec.add(evEndOK, j.ID)
			return nil
		}
	}
	submit := func(j jobSpec) {
		rec.add(evSubmitCall, j.ID)
		if err := d.Submit(mkJob(j)); err != nil {
			rec.add(evSubmitErr, j.ID)
		} else {
			rec.add(evSubmitOK, j.ID)
		}
	}

	var wg sync.WaitGroup
	for _, ids := range p.bursts {
		wg.Add(1)
		go func(ids []int) {
			defer wg.Done()
			if at := p.Jobs[ids[0]].SubmitAt; at > 0 {
				time.Sleep(at)
			}
			for _, id := range ids {
				submit(p.Jobs[id])
			}
		}(ids)
	}
	wg.Add(1)
	go func() {
		defer wg.Done()
		if p.RunAt > 0 {
			time.Sleep(p.RunAt)
		}
		rec.add(evRun, -1)
		_ = d.Run()
	}()

	doClose := func() {
		rec.add(evCloseCall, -1)
		_ = d.Close()
		rec.add(evCloseRet, -1)
		synctest.Wait() // settle: whatever had been dequeued before Close has started by now
		rec.add(evSettle, -1)
	}

	if p.CloseMode != "none" {
		if p.CloseAt > 0 {
			time.Sleep(p.CloseAt)
		}
		doClose()
		for _, id := range p.late {
			time.Sleep(time.Duration(c.R.Intn(5)) * time.Millisecond)
			submit(p.Jobs[id])
		}
	}
	time.Sleep(p.horizon)
	synctest.Wait()
	wg.Wait()
	var beforeFinalClose int
	if p.CloseMode == "none" {
		rec.mu.Lock()
		beforeFinalClose = len(rec.evs)
		rec.mu.Unlock()
		doClose() // lets the workers exit; nothing may start after it either
		time.Sleep(100 * time.Millisecond)
		synctest.Wait()
	}
	analyse(c, p, rec, beforeFinalClose)
}

func analyse(c *kit.Case, p *plan, rec *recorder, beforeFinalClose int) {
	rec.mu.Lock()
	evs := append([]event(nil), rec.evs...)
	rec.mu.Unlock()

	nj := len(p.Jobs)
	succAt := make([]int, nj) // seq of first successful end, -1
	starts := make([]int, nj)
	fails := make([]int, nj)
	accepted := make([]bool, nj)
	rejected := make([]bool, nj)
	submitRet := make([]int, nj)
	for i := range succAt {
		succAt[i], submitRet[i] = -1, -1
	}
	closeCall, closeRet, settle := -1, -1, -1
	running, maxRunning := 0, 0
	runningAtClose, startsInWindow, endsAfterClose, failsAfterClose := 0, 0, 0, 0

	detail := func(job int) map[string]any {
		var tr []string
		for _, e := range evs {
			if e.Job == job || e.Job == -1 {
				tr = append(tr, e.String())
			}
		}
		if len(tr) > 80 {
			tr = tr[:80]
		}
		d := map[string]any{"workers": p.Workers, "close": p.CloseMode, "close_at": p.CloseAt.String(), "run_at": p.RunAt.String(), "jobs": len(p.Jobs), "trace": tr}
		if job >= 0 {
			d["job"] = p.Jobs[job]
		}
		return d
	}

	for _, e := range evs {
		switch e.Kind {
		case evCloseCall:
			if closeCall < 0 {
				closeCall = e.Seq
				runningAtClose = running
			}
		case evCloseRet:
			if closeRet < 0 {
				closeRet = e.Seq
			}
		case evSettle:
			if settle < 0 {
				settle = e.Seq
			}
		case evSubmitOK:
			accepted[e.Job] = true
			submitRet[e.Job] = e.Seq
		case evSubmitErr:
			rejected[e.Job] = true
			submitRet[e.Job] = e.Seq
			if closeCall < 0 {
				c.Violation("submit-rejected-before-close", fmt.Sprintf("Submit of job %d returned an error although Close had not been called yet", e.Job), detail(e.Job))
				return
			}
		case evStart:
			running++
			if running > maxRunning {
				maxRunning = running
			}
			starts[e.Job]++
			if succAt[e.Job] >= 0 {
				c.Violation("job-executed-after-success", fmt.Sprintf("job %d was started again (event #%d) after it had returned success (event #%d)", e.Job, e.Seq, succAt[e.Job]), detail(e.Job))
				return
			}
			if settle >= 0 {
				c.Violation("job-started-after-close", fmt.Sprintf("job %d started (event #%d) after Close had returned (event #%d) and the system had settled (event #%d)", e.Job, e.Seq, closeRet, settle), detail(e.Job))
				return
			}
			if closeRet >= 0 {
				startsInWindow++ // dequeued before Close, started before quiescence: accepted
			}
		case evEndOK:
			running--
			if succAt[e.Job] < 0 {
				succAt[e.Job] = e.Seq
			}
			if closeRet >= 0 {
				endsAfterClose++
			}
		case evEndFail:
			running--
			fails[e.Job]++
			if closeRet >= 0 {
				endsAfterClose++
				failsAfterClose++
			}
		}
	}

	// bounded progress: with no Close before the horizon every accepted job has run until success.
	if p.CloseMode == "none" {
		for _, j := range p.Jobs {
			if !accepted[j.ID] {
				continue
			}
			ok := succAt[j.ID] >= 0 && succAt[j.ID] < beforeFinalClose
			if !ok {
				what := "was never executed"
				if starts[j.ID] > 0 {
					what = fmt.Sprintf("was executed %d time(s), failed %d time(s) and was not retried", starts[j.ID], fails[j.ID])
				}
				c.Violation("job-not-run-until-success", fmt.Sprintf("job %d (fails %d times, %s per run) %s although the queue was open for %s of virtual time after the last submit", j.ID, j.Fails, j.Dur, what, p.horizon), detail(j.ID))
				return
			}
			if starts[j.ID] != j.Fails+1 {
				// cannot happen without one of the violations above; keep the oracle honest
				c.Violation("job-execution-count", fmt.Sprintf("job %d executed %d times, script needs exactly %d", j.ID, starts[j.ID], j.Fails+1), detail(j.ID))
				return
			}
		}
	}

	// coverage
	totalStarts, totalFails, succ, pendingAtClose, lostByClose := 0, 0, 0, 0, 0
	maxFails := 0
	for _, j := range p.Jobs {
		totalStarts += starts[j.ID]
		totalFails += fails[j.ID]
		if succAt[j.ID] >= 0 {
			succ++
		} else if accepted[j.ID] {
			lostByClose++
		}
		if j.Fails > maxFails {
			maxFails = j.Fails
		}
		if closeCall >= 0 && accepted[j.ID] && submitRet[j.ID] < closeCall && (succAt[j.ID] < 0 || succAt[j.ID] > closeCall) {
			pendingAtClose++
		}
	}
	c.Eval(totalStarts)
	c.Count("jobs_submitted", len(p.Jobs))
	c.Count("executions", totalStarts)
	c.Count("failed_executions_retried_or_dropped", totalFails)
	c.Count("jobs_succeeded", succ)
	c.Count("workers_total", p.Workers)
	if p.CloseMode == "none" {
		c.Count("cases_no_close_all_jobs_succeeded", 1)
		if totalFails > 0 {
			c.Count("retries_until_success", totalFails)
		}
	} else {
		c.Count("cases_closed_"+p.CloseMode, 1)
		c.Count("close_with_executions_running", runningAtClose)
		c.Count("close_with_jobs_unfinished", pendingAtClose)
		c.Count("jobs_dropped_by_close", lostByClose)
		c.Count("executions_ending_after_close_returned", endsAfterClose)
		c.Count("failed_after_close_not_retried", failsAfterClose)
		c.Count("starts_between_close_return_and_settle", startsInWindow)
		for _, id := range p.late {
			if rejected[id] {
				c.Count("submit_after_close_rejected", 1)
			} else if accepted[id] {
				c.Count("submit_after_close_accepted_never_run", 1)
			}
		}
	}
	if p.RunAt > 0 {
		c.Count("cases_run_called_after_first_submits", 1)
	}
	if maxRunning == p.Workers && p.Workers > 1 {
		c.Count("cases_all_workers_busy_at_once", 1)
	}
	b := func(n int) int { // coarse bucket
		switch {
		case n == 0:
			return 0
		case n < 4:
			return 1
		case n < 16:
			return 2
		case n < 64:
			return 3
		}
		return 4
	}
	if totalFails > 0 || (closeCall >= 0 && pendingAtClose > 0) {
		c.Nontrivial(fmt.Sprintf("w%d j%d f%d mf%d %s run%d pend%d lost%d eac%d", b(p.Workers), b(len(p.Jobs)), b(totalFails), maxFails, p.CloseMode, b(runningAtClose), b(pendingAtClose), b(lostByClose), b(endsAfterClose)))
	}
	if c.Index%500 == 3 {
		jobs := p.Jobs
		if len(jobs) > 6 {
			jobs = jobs[:6]
		}
		var tr []string
		for i, e := range evs {
			if i >= 25 {
				break
			}
			tr = append(tr, e.String())
		}
		c.Sample(map[string]any{"workers": p.Workers, "close": p.CloseMode, "close_at": p.CloseAt.String(), "run_at": p.RunAt.String(), "n_jobs": len(p.Jobs), "first_jobs": jobs, "executions": totalStarts, "log_head": tr})
	}
}

func TestC40(t *testing.T) {
	kit.Main(t, kit.Spec{
		ID:     "C40",
		Level:  "fault_enumeration",
		Rule: "every 20th case is a close-race case: 1-3 parked workers, 1-4 jobs submitted, the woken workers held at the yield point between their wake-up and their dequeue (internal/dissolve queue.beforeRemove, no lock held) while Close runs to completion, then released: nothing was dequeued before Close returned, so no job may run. Every 40th case is a real-time hand-off case: 15 000 jobs (thorough: every 440th case, 60 000 jobs) submitted one at a time to an idle Dissolver with 1-2 workers, each right after the previous one succeeded plus a 0-60-iteration spin, every third failing once; a job that is late by 300 ms makes the case read a goroutine dump, and the violation is 'all worker goroutines parked in sync.Cond.Wait inside queue.Wait while the job accepted before the dump is still not executed after it' (a lost wake-up; timing decides nothing). All other cases: one synctest bubble with a Dissolver of 1..64 workers; 1-5 submit bursts (1-12 jobs, every 8th burst 30-150) from separate goroutines at virtual instants 0..60ms; each job scripted to fail its first f executions, f in {0,1,2,3,5,8}, each execution sleeping d in {0,1,1.5,3,10,50}ms of virtual time (the fault grid f x d x workers is drawn per job); Run at 0 or (20%) after the first submits; Close: 40% none before a horizon at which even one worker would have finished (then all accepted jobs must have succeeded), 50% at a uniformly random virtual instant of the expected makespan (half of them on a millisecond boundary so that it coincides with job ends/bursts), 10% at instant 0; 0-3 submits after Close returned. " +
			"Every Submit call/return, execution start/end, Close call/return and the quiescence point after Close (synctest.Wait) is appended to one log under a mutex. Oracle: no execution of a job starts after one of its executions returned success; no execution starts after Close returned and the bubble settled; Submit is not rejected before Close was called; without Close every accepted job reaches success (exactly f+1 executions). " +
			"Non-trivial = a case with at least one failed execution or a Close that found unfinished jobs; signature = buckets of (workers, jobs, failures, max f, close mode, executions running at close, unfinished at close, dropped, executions ending after close). evaluations = job executions.",
		Assumptions: []string{
			"an execution that was dequeued before Close and starts between the return of Close and the next quiescence of the bubble is not 'executed after the queue is closed' (the worker had already taken it); such starts are counted in starts_between_close_return_and_settle",
			"liveness is checked as bounded progress only: in runs that are not closed before a horizon of (sum of all scripted run times + 200ms) every accepted job has succeeded",
			"virtual time and quiescence as provided by testing/synctest; the execution log order is the order of the recorder mutex",
		},
		Cases:           map[string]int{"quick": 4000, "thorough": 60000},
		RequireCounters: []string{"close_race_cases", "workers_held_between_wakeup_and_dequeue_while_close_ran", "handoff_cases", "handoff_jobs", "retries_until_success", "cases_no_close_all_jobs_succeeded", "cases_closed_mid", "cases_closed_early", "close_with_executions_running", "close_with_jobs_unfinished", "jobs_dropped_by_close", "failed_after_close_not_retried", "submit_after_close_rejected", "cases_all_workers_busy_at_once", "cases_run_called_after_first_submits"},
		Run:             runCase,
	})
}
