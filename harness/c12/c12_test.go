// C12: The per-connection write path delivers messages exactly.
//
// Three kinds of cases (chosen by case index, all inside a virtual-time bubble):
//
//	public  – a real Client on a recording transport, configured through the
//	          OnConnecting ConnectReply, fed by concurrent Client.Send producers
//	          (and an RPC command "producer" for the reply path);
//	qseq    – internal/queue driven sequentially against a slice model;
//	qconc   – internal/queue driven by concurrent goroutines, history checked
//	          with porcupine against a FIFO model.
package c12

import (
	"context"
	"encoding/json"
	"fmt"
	"sort"
	"strings"
	"sync"
	"sync/atomic"
	"testing"
	"testing/synctest"
	"time"

	"github.com/anishathalye/porcupine"
	"github.com/centrifugal/centrifuge"
	"github.com/centrifugal/centrifuge/internal/queue"
	"github.com/centrifugal/centrifuge/verifx/kit"
	"github.com/centrifugal/protocol"
)

func runCase(c *kit.Case) {
	// (index/16 + index%16) so that every child process of the sharded runner
	// (case i runs in child i%16) sees every kind of case.
	switch (c.Index/16 + c.Index%16) % 8 {
	case 5, 6:
		runQueueSeq(c)
	case 7:
		runQueueConc(c)
	default:
		runPublic(c)
	}
}

// ---------------------------------------------------------------------------------------------
// (1) public path

type msgRec struct {
	ID      string `json:"id"`
	Kind    string `json:"kind"` // send | rpc
	Prod    int    `json:"prod"`
	N       int    `json:"n"`
	Size    int    `json:"size"`
	CallSeq int64  `json:"call"`
	RetSeq  int64  `json:"ret"`
	Err     string `json:"err,omitempty"`
	CmdID   uint32 `json:"cmd,omitempty"`
	// filled by the oracle
	FrameSeq  int64 `json:"frame_seq,omitempty"`
	delivered int
}

type wire struct {
	ID  string `json:"id"`
	Pad string `json:"pad"`
}

func padChar(id string) byte {
	h := 0
	for i := 0; i < len(id); i++ {
		h = h*31 + int(id[i])
	}
	if h < 0 {
		h = -h
	}
	return byte('a' + h%26)
}

func payload(id string, pad int) []byte {
	b, _ := json.Marshal(wire{ID: id, Pad: strings.Repeat(string(padChar(id)), pad)})
	return b
}

// parsePayload returns the id carried by data and whether the padding is intact.
func parsePayload(data []byte) (id string, intact bool, ok bool) {
	var m wire
	if json.Unmarshal(data, &m) != nil || m.ID == "" {
		return "", false, false
	}
	ch := padChar(m.ID)
	for i := 0; i < len(m.Pad); i++ {
		if m.Pad[i] != ch {
			return m.ID, false, true
		}
	}
	return m.ID, true, true
}

type pubCfg struct {
	Scenario      string  `json:"scenario"`
	Proto         string  `json:"proto"`
	Uni           bool    `json:"unidirectional"`
	WriteDelayMs  float64 `json:"write_delay_ms"`
	MaxFrame      int     `json:"max_messages_in_frame"`
	InitCap       int     `json:"queue_initial_cap"`
	ShrinkDelayMs float64 `json:"queue_shrink_delay_ms"`
	WithTimer     bool    `json:"write_with_timer"`
	RWQ           bool    `json:"reply_without_queue"`
	Latency       string  `json:"transport_latency"`
	Producers     int     `json:"producers"`
	CmdProducer   bool    `json:"rpc_producer"`
	QueueMax      int     `json:"client_queue_max_size"`
	FailWriteAt   int     `json:"fail_write_at,omitempty"`
	DiscCode      uint32  `json:"disconnect_code,omitempty"`
	FlushAtDrain  int     `json:"flush_started_after_writer_drain_number,omitempty"`
}

type step struct {
	gap time.Duration
	pad int
}

func ms(f float64) time.Duration { return time.Duration(f * float64(time.Millisecond)) }

func runPublic(c *kit.Case) {
	r := c.R
	w := kit.NewWorld(c)

	cfg := pubCfg{}
	cfg.Scenario = kit.Pick(r, []string{"steady", "steady", "steady", "flush", "flush", "flush", "noflush", "slow", "slow", "fail"})
	cfg.Proto = kit.Pick(r, []string{"json", "protobuf"})
	cfg.Uni = r.Chance(1, 5)
	cfg.WriteDelayMs = kit.Pick(r, []float64{0, 0, 0.5, 1, 5, 20})
	cfg.MaxFrame = kit.Pick(r, []int{0, 0, -1, 1, 2, 3, 8, 64})
	cfg.InitCap = kit.Pick(r, []int{0, 0, 1, 2, 4, 16})
	cfg.ShrinkDelayMs = kit.Pick(r, []float64{0, -1, 3, 50})
	cfg.WithTimer = r.Bool()
	cfg.RWQ = r.Chance(1, 3)
	cfg.Producers = r.Range(1, 4)
	cfg.CmdProducer = !cfg.Uni && r.Chance(1, 2)
	timerMode := cfg.WriteDelayMs > 0 && cfg.WithTimer

	nodeCfg := centrifuge.Config{}
	if cfg.Scenario == "slow" {
		cfg.QueueMax = kit.Pick(r, []int{2048, 4096, 8192})
		cfg.CmdProducer = false
		nodeCfg.ClientQueueMaxSize = cfg.QueueMax
	}
	// A transport that sleeps (virtual time) inside Write holds the writer mutex
	// while asleep; anything that wants that mutex meanwhile freezes the bubble.
	// Sleeping latency is therefore only used where nobody else takes it:
	// goroutine-mode writer, no direct replies, no close while writes are in flight.
	lats := []string{"none", "yield", "yield"}
	if !timerMode && cfg.Scenario == "steady" && !(cfg.RWQ && cfg.CmdProducer) {
		lats = append(lats, "sleep", "sleep")
	}
	cfg.Latency = kit.Pick(r, lats)
	if cfg.Scenario == "fail" {
		cfg.FailWriteAt = r.Range(2, 12)
	}
	discCodes := []centrifuge.Disconnect{centrifuge.DisconnectForceReconnect, centrifuge.DisconnectForceNoReconnect,
		centrifuge.DisconnectServerError, centrifuge.DisconnectExpired, centrifuge.DisconnectInsufficientState,
		{Code: 4100, Reason: "custom"}}
	disc := kit.Pick(r, discCodes)
	if cfg.Scenario == "flush" {
		cfg.DiscCode = disc.Code
		if r.Chance(1, 2) {
			cfg.FlushAtDrain = r.Range(1, 12)
		}
	}
	noflushVia := kit.Pick(r, []string{"closefn", "disconnect"})

	// producer plans
	plans := make([][]step, cfg.Producers)
	total := 0
	for p := range plans {
		k := r.Range(4, 50)
		burst := r.Chance(1, 2)
		for i := 0; i < k; i++ {
			var g time.Duration
			switch {
			case burst && r.Chance(4, 5):
				g = 0
			case r.Chance(1, 3):
				g = 0
			default:
				g = time.Duration(r.Range(1, 4)) * time.Millisecond
			}
			pad := r.Range(0, 40)
			if r.Chance(1, 12) {
				pad = r.Range(200, 1500)
			}
			plans[p] = append(plans[p], step{gap: g, pad: pad})
		}
		total += k
	}
	var cmdPlan []step
	if cfg.CmdProducer {
		for i, k := 0, r.Range(3, 25); i < k; i++ {
			cmdPlan = append(cmdPlan, step{gap: time.Duration(r.Range(0, 3)) * time.Millisecond, pad: r.Range(0, 30)})
		}
	}
	span := 0
	for _, pl := range plans {
		s := 0
		for _, st := range pl {
			s += int(st.gap / time.Millisecond)
		}
		if s > span {
			span = s
		}
	}
	actAt := time.Duration(r.Range(0, span+2)) * time.Millisecond // instant of the disconnect / close
	startStagger := make([]time.Duration, cfg.Producers)
	for i := range startStagger {
		startStagger[i] = time.Duration(r.Range(0, 3)) * time.Millisecond
	}
	tr := kit.NewRand(c.Seed, uint64(c.Index)*104729+7) // transport latency stream (used under the transport write lock only)
	actYield := r.Range(0, 30)

	node, _ := w.NewNode(nodeCfg, func(n *centrifuge.Node) {
		n.OnConnecting(func(_ context.Context, _ centrifuge.ConnectEvent) (centrifuge.ConnectReply, error) {
			return centrifuge.ConnectReply{
				Credentials:        &centrifuge.Credentials{UserID: "u"},
				WriteDelay:         ms(cfg.WriteDelayMs),
				MaxMessagesInFrame: cfg.MaxFrame,
				QueueInitialCap:    cfg.InitCap,
				QueueShrinkDelay:   ms(cfg.ShrinkDelayMs),
				WriteWithTimer:     cfg.WithTimer,
				ReplyWithoutQueue:  cfg.RWQ,
			}, nil
		})
		n.OnConnect(func(cl *centrifuge.Client) {
			cl.OnRPC(func(e centrifuge.RPCEvent, cb centrifuge.RPCCallback) {
				cb(centrifuge.RPCReply{Data: e.Data}, nil)
			})
		})
	})

	proto := centrifuge.ProtocolTypeJSON
	if cfg.Proto == "protobuf" {
		proto = centrifuge.ProtocolTypeProtobuf
	}
	conn := w.NewConn(node, kit.TransportOpts{Protocol: proto, Unidirectional: cfg.Uni, FailWriteAt: cfg.FailWriteAt,
		PingPong: centrifuge.PingPongConfig{PingInterval: -1, PongTimeout: -1}})
	switch cfg.Latency {
	case "yield":
		conn.T.OnFrame(func(kit.Frame) { kit.Yield(tr.Range(0, 60)) })
	case "sleep":
		conn.T.OnFrame(func(kit.Frame) { time.Sleep(time.Duration(tr.Range(0, 3000)) * time.Microsecond) })
	}
	if cfg.Uni {
		conn.Client.Connect(centrifuge.ConnectRequest{})
	} else {
		conn.Connect(nil)
	}

	var logMu sync.Mutex
	var recs []*msgRec
	send := func(p, n, pad int) *msgRec {
		rec := &msgRec{ID: fmt.Sprintf("p%d:%d", p, n), Kind: "send", Prod: p, N: n}
		data := payload(rec.ID, pad)
		rec.Size = len(data)
		logMu.Lock()
		rec.CallSeq = w.Seq()
		recs = append(recs, rec)
		logMu.Unlock()
		err := conn.Client.Send(data)
		ret := w.Seq()
		logMu.Lock()
		rec.RetSeq = ret
		if err != nil {
			rec.Err = err.Error()
		}
		logMu.Unlock()
		return rec
	}
	rpc := func(n, pad int) {
		id := conn.NextID()
		rec := &msgRec{ID: fmt.Sprintf("r:%d", n), Kind: "rpc", Prod: -1, N: n, CmdID: id}
		data := payload(rec.ID, pad)
		rec.Size = len(data)
		logMu.Lock()
		rec.CallSeq = w.Seq()
		recs = append(recs, rec)
		logMu.Unlock()
		ok := conn.Do(&protocol.Command{Id: id, Rpc: &protocol.RPCRequest{Method: "echo", Data: data}})
		ret := w.Seq()
		logMu.Lock()
		rec.RetSeq = ret
		if !ok {
			rec.Err = "HandleCommand returned false"
		}
		logMu.Unlock()
	}

	var discCallSeq atomic.Int64
	var lbViolation atomic.Pointer[string]
	slowBelow := false
	slowLB := 0

	if cfg.Scenario == "slow" {
		// phase 0: a little ordinary traffic, fully written
		n := 0
		for i, k := 0, r.Range(0, 5); i < k; i++ {
			send(0, n, r.Range(0, 30))
			n++
		}
		time.Sleep(time.Second)
		synctest.Wait()
		conn.T.Block()
		// phase 1: one message; afterwards the writer is either stuck in the blocked
		// Write holding at most this message, or waiting for its write delay.
		send(0, n, r.Range(0, 30))
		n++
		synctest.Wait()
		// phase 2: a burst at one virtual instant; nothing of it can leave the queue.
		slowBelow = r.Chance(1, 4)
		target := cfg.QueueMax + r.Range(1, 2000)
		if slowBelow {
			target = cfg.QueueMax / 3
		}
		sum := 0    // lower bound of the queued bytes (payload only)
		upper := 0  // upper bound (payload + envelope)
		after := -1 // sends still to do after the limit was crossed
		refused := false
		for {
			pad := r.Range(20, 500)
			if slowBelow && upper+pad+160 > target {
				break
			}
			rec := send(0, n, pad)
			n++
			sum += rec.Size
			upper += rec.Size + 96
			// Only the first crossing is decidable: once a Send was refused the close
			// runs concurrently, and a Send whose Add slipped in just before the queue
			// was discarded sees an empty queue and legitimately returns nil.
			if rec.Err != "" {
				refused = true
			}
			if sum > cfg.QueueMax && rec.Err == "" && !refused && lbViolation.Load() == nil {
				s := fmt.Sprintf("Send of %s returned nil although at least %d payload bytes were pending in the queue of a blocked connection (ClientQueueMaxSize %d)", rec.ID, sum, cfg.QueueMax)
				lbViolation.Store(&s)
			}
			if r.Chance(1, 3) {
				kit.Yield(r.Range(1, 20))
			}
			if sum > target && after < 0 {
				after = r.Range(0, 4)
			}
			if after == 0 {
				break
			}
			if after > 0 {
				after--
			}
		}
		slowLB = sum
		kit.Yield(r.Range(0, 200))
		conn.T.Unblock()
		time.Sleep(5 * time.Second)
		synctest.Wait()
	} else {
		var wg sync.WaitGroup
		for p, pl := range plans {
			wg.Add(1)
			go func(p int, pl []step) {
				defer wg.Done()
				time.Sleep(startStagger[p])
				for i, st := range pl {
					if st.gap > 0 {
						time.Sleep(st.gap)
					} else if i%3 == 0 {
						kit.Yield(1)
					}
					send(p, i, st.pad)
				}
			}(p, pl)
		}
		if cfg.CmdProducer {
			wg.Add(1)
			go func() {
				defer wg.Done()
				for i, st := range cmdPlan {
					if st.gap > 0 {
						time.Sleep(st.gap)
					}
					rpc(i, st.pad)
				}
			}()
		}
		switch cfg.Scenario {
		case "flush":
			var once sync.Once
			doDisc := func() {
				once.Do(func() {
					discCallSeq.Store(w.Seq())
					conn.Client.Disconnect(disc)
				})
			}
			if cfg.FlushAtDrain > 0 {
				// Start the flushing disconnect from inside the writer, right after its n-th
				// queue drain and before the transport write of what it drained (the writer
				// holds its mutex there: the disconnect must wait for that write). The writer
				// goroutine yields a bounded number of times, never sleeps.
				var drains atomic.Int64
				var racerDone atomic.Bool
				kit.SetNodelessHook(node, func(point string) {
					if point != "writer.afterDrain" || drains.Add(1) != int64(cfg.FlushAtDrain) {
						return
					}
					c.Count("flush_started_between_drain_and_write", 1)
					go func() {
						doDisc()
						racerDone.Store(true)
					}()
					// Client.Disconnect closes asynchronously: wait for the transport close itself
					if kit.SpinUntil(func() bool { cl, _, _ := conn.T.Closed(); return cl && racerDone.Load() }, 3000) {
						c.Count("transport_closed_between_drain_and_write", 1)
					}
				})
			}
			wg.Add(1)
			go func() {
				defer wg.Done()
				time.Sleep(actAt)
				kit.Yield(actYield)
				doDisc()
			}()
		case "noflush":
			wg.Add(1)
			go func() {
				defer wg.Done()
				time.Sleep(actAt)
				kit.Yield(actYield)
				discCallSeq.Store(w.Seq())
				if noflushVia == "closefn" {
					_ = conn.CloseFn()
				} else {
					conn.Client.Disconnect(centrifuge.DisconnectConnectionClosed)
				}
			}()
		}
		wg.Wait()
		time.Sleep(30 * time.Second)
		synctest.Wait()
	}

	// ----------------------------------------------------------------- oracle
	frames := conn.T.Frames()
	closed, closeDisc, _ := conn.T.Closed()
	byID := map[string]*msgRec{}
	for _, rec := range recs {
		byID[rec.ID] = rec
	}
	detail := func(extra map[string]any) map[string]any {
		d := map[string]any{"config": cfg, "closed": closed, "close_code": closeDisc.Code, "close_seq": conn.T.CloseSeq,
			"disconnect_call_seq": discCallSeq.Load(), "frames": frameWitness(frames, 60), "messages": len(recs)}
		for k, v := range extra {
			d[k] = v
		}
		return d
	}
	var queued []*msgRec // delivered messages that went through the queue, in frame order
	var direct []*msgRec // replies written directly (ReplyWithoutQueue)
	maxBatch, batched, others := 0, 0, 0
	sawDisconnectPush := false
	for _, f := range frames {
		if f.Batch > maxBatch {
			maxBatch = f.Batch
		}
		if f.Batch > 1 {
			batched++
		}
		if f.DecodeErr != "" {
			c.Violation("c12-undecodable-frame", fmt.Sprintf("frame seq %d cannot be decoded: %s", f.Seq, f.DecodeErr), detail(nil))
			continue
		}
		var data []byte
		isRPC := false
		switch {
		case f.Push != nil && f.Push.Message != nil:
			data = f.Push.Message.Data
		case f.Reply != nil && f.Reply.Id != 0 && f.Reply.Rpc != nil:
			data = f.Reply.Rpc.Data
			isRPC = true
		default:
			if f.Push != nil && f.Push.Disconnect != nil {
				sawDisconnectPush = true
			}
			others++
			continue
		}
		id, intact, ok := parsePayload(data)
		rec := byID[id]
		if !ok || rec == nil || (rec.Kind == "rpc") != isRPC || (isRPC && rec.CmdID != f.Reply.Id) {
			c.Violation("c12-unknown-message-delivered", fmt.Sprintf("frame seq %d carries a message nobody queued: %.80q", f.Seq, string(data)), detail(nil))
			continue
		}
		if !intact || len(data) != rec.Size {
			c.Violation("c12-message-corrupted", fmt.Sprintf("message %s delivered with altered payload (%d bytes, queued %d)", id, len(data), rec.Size), detail(nil))
			continue
		}
		rec.delivered++
		if rec.delivered > 1 {
			c.Violation("c12-message-duplicated", fmt.Sprintf("message %s written to the transport %d times (frame seqs %d and %d)", id, rec.delivered, rec.FrameSeq, f.Seq), detail(nil))
			continue
		}
		rec.FrameSeq = f.Seq
		if isRPC && cfg.RWQ {
			direct = append(direct, rec)
		} else {
			queued = append(queued, rec)
		}
	}
	// queue order: a message whose enqueue returned before another one's began must come first.
	var maxCall int64
	var maxCallRec *msgRec
	for _, rec := range queued {
		if maxCallRec != nil && rec.RetSeq < maxCall {
			c.Violation("c12-delivery-order-violates-enqueue-order",
				fmt.Sprintf("%s (enqueue returned at seq %d) was written after %s (enqueue called at seq %d)", rec.ID, rec.RetSeq, maxCallRec.ID, maxCall),
				detail(map[string]any{"first": rec, "second": maxCallRec}))
			break
		}
		if rec.CallSeq > maxCall {
			maxCall, maxCallRec = rec.CallSeq, rec
		}
	}
	last := -1
	for _, rec := range direct {
		if rec.N < last {
			c.Violation("c12-direct-replies-out-of-order", fmt.Sprintf("reply %s written after reply r:%d", rec.ID, last), detail(nil))
			break
		}
		last = rec.N
	}
	// no hole: an accepted message that was never written although a message enqueued later was.
	var hole *msgRec
	for _, rec := range recs {
		if rec.Err == "" && rec.delivered == 0 && !(rec.Kind == "rpc" && cfg.RWQ) {
			if hole == nil || rec.RetSeq < hole.RetSeq {
				hole = rec
			}
		}
	}
	if hole != nil {
		for _, rec := range queued {
			if rec.CallSeq > hole.RetSeq {
				c.Violation("c12-message-lost-before-later-delivery",
					fmt.Sprintf("%s was accepted (enqueue returned at seq %d) and never written, but %s, enqueued later (call seq %d), was written at frame seq %d", hole.ID, hole.RetSeq, rec.ID, rec.CallSeq, rec.FrameSeq),
					detail(map[string]any{"lost": hole, "later": rec}))
				break
			}
		}
	}

	accepted, delivered, failedSends := 0, 0, 0
	for _, rec := range recs {
		if rec.Err == "" {
			accepted++
		} else {
			failedSends++
		}
		if rec.delivered > 0 {
			delivered++
		}
	}
	outcome := ""
	allDelivered := func(class, what string, must func(*msgRec) bool) bool {
		for _, rec := range recs {
			if rec.Err == "" && rec.delivered == 0 && must(rec) {
				c.Violation(class, fmt.Sprintf("%s: %s (%s, enqueue returned nil at seq %d) never reached the transport; %d of %d accepted messages were written", what, rec.ID, rec.Kind, rec.RetSeq, delivered, accepted),
					detail(map[string]any{"lost": rec}))
				return false
			}
		}
		return true
	}
	failureReached := false
	if cfg.Scenario == "fail" {
		failureReached = closed
	}
	switch {
	case cfg.Scenario == "steady" || (cfg.Scenario == "fail" && !failureReached) || (cfg.Scenario == "slow" && slowBelow):
		outcome = "open"
		if closed {
			c.Violation("c12-connection-closed-unexpectedly", fmt.Sprintf("the connection was closed with %d %q although nothing asked for it", closeDisc.Code, closeDisc.Reason), detail(nil))
		} else if failedSends > 0 {
			c.Violation("c12-enqueue-refused-on-open-connection", fmt.Sprintf("%d Send/command calls failed on a healthy connection", failedSends), detail(nil))
		} else {
			allDelivered("c12-message-lost", "connection still open after the settle horizon", func(*msgRec) bool { return true })
		}
		if cfg.Scenario == "slow" {
			c.Count("slow_below_limit_cases", 1)
		}
	case cfg.Scenario == "flush":
		outcome = "flushed"
		dcs := discCallSeq.Load()
		if !closed {
			c.Violation("c12-disconnect-did-not-close-transport", fmt.Sprintf("Client.Disconnect(%d) was called, the transport was never closed", disc.Code), detail(nil))
		} else if closeDisc.Code != disc.Code {
			c.Violation("c12-transport-closed-with-other-disconnect", fmt.Sprintf("Client.Disconnect(%d) was called, transport closed with %d", disc.Code, closeDisc.Code), detail(nil))
		} else if allDelivered("c12-flush-close-lost-queued-message", fmt.Sprintf("Client.Disconnect(%d) called at seq %d, transport closed at seq %d", disc.Code, dcs, conn.T.CloseSeq),
			func(rec *msgRec) bool { return rec.RetSeq < dcs }) {
			late, pendingAtCall := 0, 0
			for _, rec := range recs {
				if rec.Err == "" && rec.RetSeq < dcs && rec.FrameSeq > dcs {
					pendingAtCall++
				}
				if rec.Err == "" && rec.RetSeq > dcs {
					if rec.delivered > 0 {
						late++
					} else {
						c.Count("accepted_during_close_not_written", 1)
					}
				}
			}
			c.Count("flush_delivered_after_disconnect_call", pendingAtCall)
			c.Count("accepted_during_close_written", late)
			if pendingAtCall > 0 {
				c.Count("flush_closes_with_pending_messages", 1)
			}
		}
		if sawDisconnectPush {
			c.Count("disconnect_push_written", 1)
		}
	case cfg.Scenario == "noflush":
		outcome = "dropped"
		if !closed {
			c.Violation("c12-disconnect-did-not-close-transport", "close without flush requested, the transport was never closed", detail(nil))
		}
		c.Count("noflush_close_cases", 1)
		c.Count("noflush_discarded_messages", accepted-delivered)
	case cfg.Scenario == "slow":
		outcome = "slow"
		if s := lbViolation.Load(); s != nil {
			c.Violation("c12-queue-limit-not-enforced", *s, detail(nil))
		} else if !closed {
			c.Violation("c12-slow-consumer-not-closed", fmt.Sprintf("at least %d bytes were pending (limit %d) and the connection was never closed", slowLB, cfg.QueueMax), detail(nil))
		} else if closeDisc.Code != centrifuge.DisconnectSlow.Code {
			c.Violation("c12-slow-consumer-closed-with-other-code", fmt.Sprintf("queue limit %d exceeded (>= %d bytes pending): transport closed with %d %q instead of 3008", cfg.QueueMax, slowLB, closeDisc.Code, closeDisc.Reason), detail(nil))
		} else {
			c.Count("slow_consumer_closes", 1)
			c.Count("slow_discarded_messages", accepted-delivered)
		}
	case cfg.Scenario == "fail":
		outcome = "write-error"
		if closeDisc.Code != centrifuge.DisconnectWriteError.Code {
			c.Violation("c12-write-error-closed-with-other-code", fmt.Sprintf("write call %d failed: transport closed with %d %q instead of 3009", cfg.FailWriteAt, closeDisc.Code, closeDisc.Reason), detail(nil))
		}
		for _, f := range frames {
			if f.WriteCall >= cfg.FailWriteAt {
				c.Violation("c12-delivered-after-write-error", fmt.Sprintf("frame seq %d recorded from write call %d, after the failed call %d", f.Seq, f.WriteCall, cfg.FailWriteAt), detail(nil))
				break
			}
		}
		c.Count("write_error_closes", 1)
		c.Count("write_error_undelivered_messages", accepted-delivered)
	}

	// what the run exercised
	c.Count("public_cases", 1)
	c.Count("scenario_"+cfg.Scenario, 1)
	c.Count("latency_"+cfg.Latency, 1)
	c.Count("producers", cfg.Producers)
	if cfg.CmdProducer {
		c.Count("rpc_producers", 1)
	}
	c.Count("messages_accepted", accepted)
	c.Count("messages_written", delivered)
	c.Count("enqueue_refused", failedSends)
	c.Count("frames", len(frames))
	c.Count("frames_in_multi_message_writes", batched)
	c.Count("replies_through_queue", countKind(queued, "rpc"))
	c.Count("replies_without_queue", len(direct))
	if timerMode {
		c.Count("timer_mode_cases", 1)
	} else if cfg.WriteDelayMs > 0 {
		c.Count("write_delay_goroutine_mode_cases", 1)
	} else {
		c.Count("no_write_delay_cases", 1)
	}
	if cfg.ShrinkDelayMs < 0 {
		c.Count("shrink_immediate_cases", 1)
	} else if cfg.ShrinkDelayMs > 0 {
		c.Count("shrink_delay_cases", 1)
	}
	// backlog: accepted-and-not-yet-written, sampled at every enqueue return.
	effFrame := cfg.MaxFrame
	if effFrame == 0 {
		effFrame = 16
	}
	effCap := cfg.InitCap
	if effCap == 0 {
		effCap = 2
	}
	maxBacklog := backlog(recs, frames)
	if effFrame > 0 && maxBacklog-effFrame > effCap {
		c.Count("queue_growth_inferred_cases", 1)
	}
	overlap := 0
	for i := 1; i < len(queued); i++ {
		if queued[i].Prod != queued[i-1].Prod {
			overlap++
		}
	}
	c.Count("producer_switches_in_delivery", overlap)
	c.Nontrivial(fmt.Sprintf("public|%s|%s|t%v|wd%v|mf%d|cap%d|sh%v|rwq%v|uni%v|%s|b%d|bl%d", cfg.Scenario, outcome, timerMode, cfg.WriteDelayMs > 0,
		cfg.MaxFrame, cfg.InitCap, cfg.ShrinkDelayMs, cfg.RWQ, cfg.Uni, cfg.Latency, bucket(maxBatch), bucket(maxBacklog)))
	if c.Index < 64 {
		c.Sample(map[string]any{"kind": "public", "config": cfg, "accepted": accepted, "written": delivered, "frames": len(frames),
			"largest_write": maxBatch, "max_backlog": maxBacklog, "closed": closed, "close_code": closeDisc.Code})
	}
	if c.Verbose {
		for _, f := range frames {
			c.Logf("frame seq=%d at=%v call=%d batch=%d %s", f.Seq, f.At, f.WriteCall, f.Batch, trunc(string(f.Raw), 120))
		}
		c.Logf("closed=%v disc=%v closeSeq=%d discCall=%d cfg=%+v", closed, closeDisc, conn.T.CloseSeq, discCallSeq.Load(), cfg)
	}
	_ = conn.CloseFn()
	w.Shutdown()
}

func countKind(rs []*msgRec, kind string) int {
	n := 0
	for _, r := range rs {
		if r.Kind == kind {
			n++
		}
	}
	return n
}

func backlog(recs []*msgRec, frames []kit.Frame) int {
	type ev struct {
		seq int64
		d   int
	}
	var evs []ev
	for _, rec := range recs {
		if rec.Err == "" && rec.delivered > 0 {
			evs = append(evs, ev{rec.RetSeq, 1}, ev{rec.FrameSeq, -1})
		}
	}
	sort.Slice(evs, func(i, j int) bool { return evs[i].seq < evs[j].seq })
	cur, max := 0, 0
	for _, e := range evs {
		cur += e.d
		if cur > max {
			max = cur
		}
	}
	_ = frames
	return max
}

func bucket(n int) int {
	switch {
	case n <= 1:
		return n
	case n < 4:
		return 2
	case n < 17:
		return 3
	case n < 65:
		return 4
	}
	return 5
}

func trunc(s string, n int) string {
	if len(s) > n {
		return s[:n] + "…"
	}
	return s
}

type frameW struct {
	Seq   int64  `json:"seq"`
	AtUs  int64  `json:"at_us"`
	Call  int    `json:"write_call"`
	Batch int    `json:"batch"`
	What  string `json:"what"`
}

// frameWitness renders the last n frames for a violation detail.
func frameWitness(frames []kit.Frame, n int) []frameW {
	if len(frames) > n {
		frames = frames[len(frames)-n:]
	}
	out := make([]frameW, 0, len(frames))
	for _, f := range frames {
		what := trunc(string(f.Raw), 60)
		switch {
		case f.Push != nil && f.Push.Message != nil:
			if id, _, ok := parsePayload(f.Push.Message.Data); ok {
				what = "message " + id
			}
		case f.Reply != nil && f.Reply.Rpc != nil:
			if id, _, ok := parsePayload(f.Reply.Rpc.Data); ok {
				what = fmt.Sprintf("reply #%d %s", f.Reply.Id, id)
			}
		case f.Push != nil && f.Push.Disconnect != nil:
			what = fmt.Sprintf("disconnect push %d", f.Push.Disconnect.Code)
		case f.Reply != nil && f.Reply.Connect != nil, f.Push != nil && f.Push.Connect != nil:
			what = "connect"
		}
		out = append(out, frameW{Seq: f.Seq, AtUs: int64(f.At / time.Microsecond), Call: f.WriteCall, Batch: f.Batch, What: what})
	}
	return out
}

// ---------------------------------------------------------------------------------------------
// (2a) internal/queue against a slice model, sequentially

type mItem struct {
	id   int
	item queue.Item
}

func mkItem(r *kit.Rand, id int) queue.Item {
	sz := r.Range(0, 24)
	if r.Chance(1, 10) {
		sz = r.Range(100, 400)
	}
	d := make([]byte, sz)
	for i := range d {
		d[i] = byte(id + i)
	}
	return queue.Item{Data: d, Channel: fmt.Sprintf("ch%d", id), Key: fmt.Sprintf("k%d", id%7), FrameType: protocol.FrameType(id % 9)}
}

func sameItem(a, b queue.Item) bool {
	return string(a.Data) == string(b.Data) && a.Channel == b.Channel && a.Key == b.Key && a.FrameType == b.FrameType
}

func runQueueSeq(c *kit.Case) {
	r := c.R
	initCap := kit.Pick(r, []int{1, 2, 2, 3, 4, 8, 16})
	q := queue.New(initCap)
	var model []queue.Item
	closed := false
	nextID := 0
	nOps := r.Range(60, 400)
	var trace []string
	note := func(f string, a ...any) {
		trace = append(trace, fmt.Sprintf(f, a...))
		if len(trace) > 40 {
			trace = trace[len(trace)-40:]
		}
	}
	fail := func(class, msg string) {
		c.Violation(class, msg, map[string]any{"initial_cap": initCap, "last_ops": append([]string(nil), trace...)})
	}
	msize := func() int {
		s := 0
		for _, it := range model {
			s += len(it.Data)
		}
		return s
	}
	lastCap := q.Cap()
	maxCap := lastCap
	grows, shrinks, delayedShrinks, shrinksWithItems := 0, 0, 0, 0
	pendingShrink := false // a delayed shrink timer may be armed
	capStep := func(op string) {
		cp := q.Cap()
		if cp > lastCap {
			grows++
		} else if cp < lastCap && !closed {
			shrinks++
			if op == "sleep" {
				delayedShrinks++
			}
			if len(model) > 0 {
				shrinksWithItems++
			}
		}
		if cp > maxCap {
			maxCap = cp
		}
		lastCap = cp
	}
	check := func(op string) bool {
		l, s, cp, cl := q.Len(), q.Size(), q.Cap(), q.Closed()
		switch {
		case l != len(model):
			fail("c12-queue-len-differs-from-model", fmt.Sprintf("after %s: Len()=%d, model holds %d", op, l, len(model)))
		case s != msize():
			fail("c12-queue-size-differs-from-model", fmt.Sprintf("after %s: Size()=%d, model holds %d bytes", op, s, msize()))
		case cl != closed:
			fail("c12-queue-closed-flag-differs-from-model", fmt.Sprintf("after %s: Closed()=%v, model %v", op, cl, closed))
		case !closed && cp < l:
			fail("c12-queue-capacity-below-length", fmt.Sprintf("after %s: Cap()=%d < Len()=%d", op, cp, l))
		case !closed && cp < initCap:
			fail("c12-queue-capacity-below-initial", fmt.Sprintf("after %s: Cap()=%d below the initial capacity %d", op, cp, initCap))
		default:
			capStep(op)
			return true
		}
		return false
	}
	expectItems := func(op string, got []queue.Item, n int) bool {
		if len(got) != n {
			fail("c12-queue-removed-count-differs-from-model", fmt.Sprintf("%s returned %d items, model expects %d (model length %d)", op, len(got), n, len(model)))
			return false
		}
		for i := range got {
			if !sameItem(got[i], model[i]) {
				fail("c12-queue-removed-item-differs-from-model", fmt.Sprintf("%s: item %d is %s/%dB, model expects %s/%dB", op, i, got[i].Channel, len(got[i].Data), model[i].Channel, len(model[i].Data)))
				return false
			}
		}
		model = model[n:]
		return true
	}
	want := func(k int, bufLen int) int {
		n := len(model)
		if k != -1 && k < n {
			n = k
		}
		if bufLen >= 0 && n > bufLen {
			n = bufLen
		}
		return n
	}
	closeAt := -1
	if r.Chance(2, 3) {
		closeAt = r.Range(nOps/2, nOps-1)
	}
	ops := 0
	for ; ops < nOps && !c.Violated(); ops++ {
		if ops == closeAt {
			if r.Bool() {
				q.Close()
				note("Close")
				model, closed = nil, true
				c.Count("queue_close_ops", 1)
			} else {
				rem := q.CloseRemaining()
				note("CloseRemaining -> %d", len(rem))
				if !expectItems("CloseRemaining", rem, len(model)) {
					break
				}
				closed = true
				c.Count("queue_close_remaining_ops", 1)
			}
			check("close")
			continue
		}
		// phases make the queue grow deep and drain again
		grow := (ops/40)%2 == 0
		op := r.Intn(100)
		switch {
		case op < 22 || (grow && op < 45):
			it := mkItem(r, nextID)
			nextID++
			ok := q.Add(it)
			note("Add #%d -> %v", nextID-1, ok)
			if ok == closed {
				fail("c12-queue-add-result-differs-from-model", fmt.Sprintf("Add returned %v on a queue with closed=%v", ok, closed))
			}
			if !closed {
				model = append(model, it)
			}
			check("Add")
		case op < 55 && (grow || op < 35):
			k := r.Range(0, 12)
			if r.Chance(1, 10) {
				k = r.Range(20, 70)
			}
			its := make([]queue.Item, k)
			for i := range its {
				its[i] = mkItem(r, nextID)
				nextID++
			}
			ok := q.AddMany(its...)
			note("AddMany x%d -> %v", k, ok)
			if ok == closed {
				fail("c12-queue-add-result-differs-from-model", fmt.Sprintf("AddMany returned %v on a queue with closed=%v", ok, closed))
			}
			if !closed {
				model = append(model, its...)
			}
			check("AddMany")
		case op < 62:
			it, ok := q.Remove()
			note("Remove -> %v", ok)
			if ok != (len(model) > 0) {
				fail("c12-queue-removed-count-differs-from-model", fmt.Sprintf("Remove returned ok=%v, model length %d", ok, len(model)))
				break
			}
			if ok && !expectItems("Remove", []queue.Item{it}, 1) {
				break
			}
			check("Remove")
		case op < 70:
			k := kit.Pick(r, []int{-1, 1, 2, 3, 5, 16, 40})
			its, ok := q.RemoveMany(k)
			note("RemoveMany(%d) -> %d,%v", k, len(its), ok)
			if ok != (len(model) > 0) {
				fail("c12-queue-removed-count-differs-from-model", fmt.Sprintf("RemoveMany(%d) returned ok=%v, model length %d", k, ok, len(model)))
				break
			}
			if !expectItems(fmt.Sprintf("RemoveMany(%d)", k), its, want(k, -1)) {
				break
			}
			check("RemoveMany")
		case op < 86:
			k := kit.Pick(r, []int{-1, 1, 2, 3, 5, 16, 40})
			bl := k
			if k == -1 {
				bl = len(model)
				if r.Chance(1, 4) {
					bl = r.Range(0, len(model)+2)
				}
			} else if r.Chance(1, 6) {
				bl = r.Range(1, k)
			}
			buf := make([]queue.Item, bl)
			shrinkVariant := r.Chance(1, 3)
			var n int
			var ok bool
			name := "RemoveManyInto"
			if shrinkVariant {
				name = "RemoveManyIntoShrink"
				n, ok = q.RemoveManyIntoShrink(buf, k)
			} else {
				n, ok = q.RemoveManyInto(buf, k)
			}
			note("%s(buf %d, %d) -> %d,%v", name, bl, k, n, ok)
			if ok != (len(model) > 0) {
				fail("c12-queue-removed-count-differs-from-model", fmt.Sprintf("%s returned ok=%v, model length %d", name, ok, len(model)))
				break
			}
			if n < 0 || n > len(buf) {
				fail("c12-queue-removed-count-differs-from-model", fmt.Sprintf("%s returned n=%d for a buffer of %d", name, n, len(buf)))
				break
			}
			if !expectItems(name, buf[:n], want(k, bl)) {
				break
			}
			check(name)
		case op < 93:
			d := kit.Pick(r, []time.Duration{0, 0, 2 * time.Millisecond, 7 * time.Millisecond, 30 * time.Millisecond})
			q.FinishCollect(d)
			note("FinishCollect(%v)", d)
			if d > 0 && !closed {
				pendingShrink = true
			}
			check("FinishCollect")
		case op < 97:
			d := time.Duration(r.Range(1, 35)) * time.Millisecond
			time.Sleep(d)
			synctest.Wait()
			note("sleep %v", d)
			check("sleep")
		default:
			// Wait
			if closed || len(model) > 0 {
				got := q.Wait()
				note("Wait -> %v", got)
				if got == closed {
					fail("c12-queue-wait-result-differs-from-model", fmt.Sprintf("Wait returned %v with closed=%v and %d items", got, closed, len(model)))
				}
				break
			}
			var returned atomic.Bool
			done := make(chan bool, 1)
			go func() {
				v := q.Wait()
				returned.Store(true)
				done <- v
			}()
			synctest.Wait()
			if returned.Load() {
				fail("c12-queue-wait-returned-on-empty-open-queue", "Wait returned although the queue is open and empty")
				<-done
				break
			}
			it := mkItem(r, nextID)
			nextID++
			q.Add(it)
			model = append(model, it)
			synctest.Wait()
			note("blocking Wait released by Add #%d", nextID-1)
			if !returned.Load() {
				fail("c12-queue-wait-not-released-by-add", "a goroutine blocked in Wait was not released by Add")
				q.Close() // release it so that the bubble can end
				<-done
				model, closed = nil, true
				break
			}
			if v := <-done; !v {
				fail("c12-queue-wait-result-differs-from-model", "Wait released by Add returned false")
			}
			c.Count("queue_blocking_waits", 1)
			check("Wait")
		}
	}
	if !closed && !c.Violated() {
		// let a pending delayed shrink fire, then drain and compare the rest
		time.Sleep(50 * time.Millisecond)
		synctest.Wait()
		check("sleep")
		its, _ := q.RemoveMany(-1)
		expectItems("final RemoveMany(-1)", its, len(model))
		q.FinishCollect(0)
		check("FinishCollect")
		q.Close()
	}
	_ = pendingShrink
	c.Eval(ops)
	c.Count("queue_seq_cases", 1)
	c.Count("queue_seq_ops", ops)
	c.Count("queue_grow_events", grows)
	c.Count("queue_shrink_events", shrinks)
	c.Count("queue_delayed_shrink_events", delayedShrinks)
	c.Count("queue_shrinks_with_items_present", shrinksWithItems)
	c.Nontrivial(fmt.Sprintf("qseq|cap%d|max%d|g%d|s%d|d%d", initCap, maxCap, bucket(grows), bucket(shrinks), bucket(delayedShrinks)))
	if c.Index < 64 {
		c.Sample(map[string]any{"kind": "queue-sequential", "initial_cap": initCap, "ops": ops, "max_cap": maxCap, "grow_events": grows,
			"shrink_events": shrinks, "delayed_shrink_events": delayedShrinks})
	}
}

// ---------------------------------------------------------------------------------------------
// (2b) internal/queue under concurrency, porcupine FIFO model

type qIn struct {
	Op    string // add | addmany | remove | removemany | removeinto | removeintoshrink | len | size | wait | finish | close | closeremaining
	Items []int
	K     int
	Buf   int
}

type qOut struct {
	OK    bool
	Items []int
	N     int
}

type qState struct {
	items  []int
	closed bool
}

func idSize(id int) int { return 1 + id%7 }

func itemOf(id int) queue.Item {
	return queue.Item{Data: make([]byte, idSize(id)), Channel: fmt.Sprintf("%d", id)}
}

func idOf(it queue.Item) int {
	var id int
	if _, err := fmt.Sscanf(it.Channel, "%d", &id); err != nil {
		return -1
	}
	return id
}

func idsOf(its []queue.Item) []int {
	out := make([]int, len(its))
	for i, it := range its {
		out[i] = idOf(it)
	}
	return out
}

func eqInts(a, b []int) bool {
	if len(a) != len(b) {
		return false
	}
	for i := range a {
		if a[i] != b[i] {
			return false
		}
	}
	return true
}

var fifoModel = porcupine.Model{
	Init: func() any { return qState{} },
	Equal: func(a, b any) bool {
		x, y := a.(qState), b.(qState)
		return x.closed == y.closed && eqInts(x.items, y.items)
	},
	Step: func(state, input, output any) (bool, any) {
		st, in, out := state.(qState), input.(qIn), output.(qOut)
		take := func(n int) qState {
			return qState{items: append([]int(nil), st.items[n:]...), closed: st.closed}
		}
		switch in.Op {
		case "add", "addmany":
			if st.closed {
				return !out.OK, st
			}
			if !out.OK {
				return false, st
			}
			ns := qState{items: append(append([]int(nil), st.items...), in.Items...)}
			return true, ns
		case "remove":
			if len(st.items) == 0 {
				return !out.OK, st
			}
			return out.OK && len(out.Items) == 1 && out.Items[0] == st.items[0], take(1)
		case "removemany", "removeinto", "removeintoshrink":
			if len(st.items) == 0 {
				return !out.OK && len(out.Items) == 0, st
			}
			n := len(st.items)
			if in.K != -1 && in.K < n {
				n = in.K
			}
			if in.Op != "removemany" && n > in.Buf {
				n = in.Buf
			}
			return out.OK && eqInts(out.Items, st.items[:n]), take(n)
		case "len":
			return out.N == len(st.items), st
		case "size":
			s := 0
			for _, id := range st.items {
				s += idSize(id)
			}
			return out.N == s, st
		case "wait":
			// Wait reports false only for a queue that is closed when it looks; once it
			// has started to block on an open queue the statement leaves the result open.
			if out.OK {
				return !st.closed, st
			}
			return st.closed, st
		case "finish":
			return true, st
		case "close":
			return true, qState{closed: true}
		case "closeremaining":
			if st.closed {
				return len(out.Items) == 0, st
			}
			return eqInts(out.Items, st.items), qState{closed: true}
		}
		return false, st
	},
	DescribeOperation: func(input, output any) string {
		in, out := input.(qIn), output.(qOut)
		return fmt.Sprintf("%s(%v,k=%d,buf=%d) -> ok=%v items=%v n=%d", in.Op, in.Items, in.K, in.Buf, out.OK, out.Items, out.N)
	},
}

func runQueueConc(c *kit.Case) {
	r := c.R
	w := kit.NewWorld(c)
	rounds := r.Range(3, 6)
	for round := 0; round < rounds && !c.Violated(); round++ {
		runQueueConcRound(c, w, r)
	}
}

func runQueueConcRound(c *kit.Case, w *kit.World, r *kit.Rand) {
	initCap := kit.Pick(r, []int{1, 2, 2, 4, 8})
	q := queue.New(initCap)
	nProd := r.Range(1, 3)
	nCons := r.Range(1, 2)
	var hmu sync.Mutex
	var hist []porcupine.Operation
	rec := func(client int, in qIn, f func() qOut) {
		call := w.Seq()
		out := f()
		ret := w.Seq()
		hmu.Lock()
		hist = append(hist, porcupine.Operation{ClientId: client, Input: in, Call: call, Output: out, Return: ret})
		hmu.Unlock()
	}
	type pstep struct {
		in    qIn
		yield int
		sleep time.Duration
	}
	nextID := 0
	prodPlans := make([][]pstep, nProd)
	for p := range prodPlans {
		for i, k := 0, r.Range(2, 6); i < k; i++ {
			var in qIn
			if r.Chance(2, 3) {
				in = qIn{Op: "add", Items: []int{nextID}}
				nextID++
			} else {
				n := r.Range(0, 4)
				in = qIn{Op: "addmany"}
				for j := 0; j < n; j++ {
					in.Items = append(in.Items, nextID)
					nextID++
				}
			}
			st := pstep{in: in, yield: r.Range(0, 6)}
			if r.Chance(1, 8) {
				st.sleep = time.Duration(r.Range(1, 3)) * time.Millisecond
			}
			prodPlans[p] = append(prodPlans[p], st)
		}
	}
	consPlans := make([][]pstep, nCons)
	for p := range consPlans {
		for i, k := 0, r.Range(3, 7); i < k; i++ {
			var in qIn
			switch x := r.Intn(100); {
			case x < 20:
				in = qIn{Op: "remove"}
			case x < 35:
				in = qIn{Op: "removemany", K: kit.Pick(r, []int{-1, 1, 2, 3})}
			case x < 55:
				k := kit.Pick(r, []int{-1, 1, 2, 4})
				b := k
				if k == -1 {
					b = r.Range(1, 6)
				}
				in = qIn{Op: "removeinto", K: k, Buf: b}
			case x < 65:
				k := kit.Pick(r, []int{1, 2, 4})
				in = qIn{Op: "removeintoshrink", K: k, Buf: k}
			case x < 75:
				in = qIn{Op: "wait"}
			case x < 83:
				in = qIn{Op: "len"}
			case x < 90:
				in = qIn{Op: "size"}
			default:
				in = qIn{Op: "finish", K: kit.Pick(r, []int{0, 1, 2})} // K = shrink delay in ms
			}
			st := pstep{in: in, yield: r.Range(0, 6)}
			if r.Chance(1, 8) {
				st.sleep = time.Duration(r.Range(1, 3)) * time.Millisecond
			}
			consPlans[p] = append(consPlans[p], st)
		}
	}
	closeKind := kit.Pick(r, []string{"close", "closeremaining"})
	closeEarly := r.Chance(1, 3) // close while producers are still running

	exec := func(client int, st pstep) {
		kit.Yield(st.yield)
		if st.sleep > 0 {
			time.Sleep(st.sleep)
		}
		in := st.in
		switch in.Op {
		case "add":
			rec(client, in, func() qOut { return qOut{OK: q.Add(itemOf(in.Items[0]))} })
		case "addmany":
			its := make([]queue.Item, len(in.Items))
			for i, id := range in.Items {
				its[i] = itemOf(id)
			}
			rec(client, in, func() qOut { return qOut{OK: q.AddMany(its...)} })
		case "remove":
			rec(client, in, func() qOut {
				it, ok := q.Remove()
				if !ok {
					return qOut{}
				}
				return qOut{OK: true, Items: []int{idOf(it)}}
			})
		case "removemany":
			rec(client, in, func() qOut {
				its, ok := q.RemoveMany(in.K)
				return qOut{OK: ok, Items: idsOf(its)}
			})
		case "removeinto", "removeintoshrink":
			rec(client, in, func() qOut {
				buf := make([]queue.Item, in.Buf)
				var n int
				var ok bool
				if in.Op == "removeinto" {
					n, ok = q.RemoveManyInto(buf, in.K)
				} else {
					n, ok = q.RemoveManyIntoShrink(buf, in.K)
				}
				if n < 0 || n > len(buf) {
					return qOut{OK: ok, Items: []int{-2}}
				}
				return qOut{OK: ok, Items: idsOf(buf[:n])}
			})
		case "len":
			rec(client, in, func() qOut { return qOut{N: q.Len()} })
		case "size":
			rec(client, in, func() qOut { return qOut{N: q.Size()} })
		case "wait":
			rec(client, in, func() qOut { return qOut{OK: q.Wait()} })
		case "finish":
			rec(client, in, func() qOut { q.FinishCollect(time.Duration(in.K) * time.Millisecond); return qOut{} })
		}
	}
	var pwg, cwg sync.WaitGroup
	for p, pl := range prodPlans {
		pwg.Add(1)
		go func(p int, pl []pstep) {
			defer pwg.Done()
			for _, st := range pl {
				exec(p, st)
			}
		}(p, pl)
	}
	for p, pl := range consPlans {
		cwg.Add(1)
		go func(p int, pl []pstep) {
			defer cwg.Done()
			for _, st := range pl {
				exec(nProd+p, st)
			}
		}(p, pl)
	}
	closer := nProd + nCons
	doClose := func() {
		if closeKind == "close" {
			rec(closer, qIn{Op: "close"}, func() qOut { q.Close(); return qOut{} })
		} else {
			rec(closer, qIn{Op: "closeremaining"}, func() qOut { return qOut{Items: idsOf(q.CloseRemaining())} })
		}
	}
	if closeEarly {
		kit.Yield(r.Range(0, 40))
		doClose()
		pwg.Wait()
	} else {
		pwg.Wait()
		// A consumer may be parked in Wait on an empty queue: closing releases it.
		kit.Yield(r.Range(0, 40))
		doClose()
	}
	cwg.Wait()
	time.Sleep(10 * time.Millisecond) // a delayed shrink timer, if armed, was stopped by Close
	synctest.Wait()

	res := porcupine.CheckOperationsTimeout(fifoModel, hist, 0)
	overl := 0
	for i := range hist {
		for j := i + 1; j < len(hist); j++ {
			if hist[i].Call < hist[j].Return && hist[j].Call < hist[i].Return {
				overl++
			}
		}
	}
	c.Eval(len(hist))
	c.Count("queue_conc_histories", 1)
	c.Count("queue_conc_ops", len(hist))
	c.Count("queue_conc_overlapping_op_pairs", overl)
	switch res {
	case porcupine.Illegal:
		sort.Slice(hist, func(i, j int) bool { return hist[i].Call < hist[j].Call })
		var lines []string
		for _, op := range hist {
			lines = append(lines, fmt.Sprintf("client %d [%d,%d] %s", op.ClientId, op.Call, op.Return, fifoModel.DescribeOperation(op.Input, op.Output)))
		}
		c.Violation("c12-queue-history-not-linearizable", fmt.Sprintf("a concurrent history of %d queue operations has no FIFO-queue linearization", len(hist)),
			map[string]any{"initial_cap": initCap, "history": lines})
	case porcupine.Unknown:
		c.Inconclusive("porcupine could not decide a queue history")
	default:
		c.Nontrivial(fmt.Sprintf("qconc|p%d|c%d|%s|early%v|ov%d", nProd, nCons, closeKind, closeEarly, bucket(overl)))
		if c.Index < 64 {
			c.Sample(map[string]any{"kind": "queue-concurrent", "initial_cap": initCap, "producers": nProd, "consumers": nCons,
				"operations": len(hist), "overlapping_pairs": overl, "close": closeKind, "linearizable": true})
		}
	}
}

func TestC12(t *testing.T) {
	kit.Main(t, kit.Spec{
		ID:     "C12",
		Level:  "exploration",
		Bubble: true,
		Rule: "every case runs in a virtual-time bubble; (index/16 + index%16) mod 8 selects the kind of case. " +
			"0-4 public path: one Client on a recording transport, writer configured through ConnectReply{WriteDelay 0/0.5/1/5/20ms, MaxMessagesInFrame 0/-1/1/2/3/8/64, QueueInitialCap 0/1/2/4/16, QueueShrinkDelay default/immediate/3ms/50ms, WriteWithTimer, ReplyWithoutQueue}, JSON/Protobuf, bi/unidirectional; " +
			"1-4 producer goroutines call Client.Send with unique ids (producer:seq, padded payloads 20-1500 bytes) in bursts and at PRNG-chosen virtual instants, an RPC command producer feeds the reply path; transport latency none / seeded Gosched yields inside Write / seeded virtual sleeps inside Write; " +
			"scenarios: steady (all accepted messages must arrive), Client.Disconnect with a flushing code at a PRNG instant or (half of them) started from inside the writer right after its n-th queue drain, before the write of what it drained (everything accepted before the call must arrive before Transport.Close, in order, close code preserved), close without flush, blocked transport + burst beyond ClientQueueMaxSize (the first Send that takes the pending payload beyond the limit must fail, transport closed with 3008; a below-limit variant must stay open), failing write call n (closed with 3009, nothing recorded after). " +
			"Always: every written message was queued, intact, at most once; a message whose enqueue returned before another's began is written first; no accepted message is skipped while a later one is written. " +
			"5-6: internal/queue vs a slice model over 60-400 random Add/AddMany/Remove/RemoveMany/RemoveManyInto/RemoveManyIntoShrink/Wait/FinishCollect(0|delay)/sleep/Close/CloseRemaining operations with Len/Size/Cap/Closed compared after each. " +
			"7: 3-6 concurrent producer/consumer histories per case on internal/queue checked with porcupine against a FIFO model. Non-trivial = a case that wrote frames / executed operations; signature = configuration x outcome x batch/backlog buckets.",
		Assumptions: []string{
			"enqueue order is observed through Send call/return stamps taken from one atomic counter: only pairs whose calls do not overlap are ordered",
			"ReplyWithoutQueue replies bypass the queue by design and are only required to be written once and in command order",
			"a transport that sleeps inside Write is used only where no other goroutine can want the writer mutex (goroutine-mode writer, steady scenario): in a bubble a mutex waiter stops virtual time; elsewhere latency is a seeded number of scheduler yields inside Write",
			"slow-consumer bound: payload bytes are a lower bound of queued bytes; the burst happens at one virtual instant after the writer was observed parked, so none of it can have left the queue",
			"the recording transport rejects writes after the failing one and after Close, so 'nothing delivered afterwards' is checked as 'nothing recorded from a later write call'",
			"queue capacity is only required to stay >= Len and >= the initial capacity; growth/shrink steps are counted, not prescribed",
			"Queue.Wait returning true after having blocked is accepted whatever the state (the statement does not cover it)",
		},
		Cases:       map[string]int{"quick": 4000, "thorough": 40000},
		CaseTimeout: 120 * time.Second,
		RequireCounters: []string{"scenario_steady", "scenario_flush", "scenario_noflush", "scenario_slow", "scenario_fail",
			"timer_mode_cases", "write_delay_goroutine_mode_cases", "no_write_delay_cases", "latency_yield", "latency_sleep",
			"frames_in_multi_message_writes", "flush_delivered_after_disconnect_call", "flush_started_between_drain_and_write", "slow_consumer_closes", "slow_below_limit_cases", "write_error_closes",
			"replies_through_queue", "replies_without_queue", "queue_growth_inferred_cases", "producer_switches_in_delivery",
			"queue_grow_events", "queue_shrink_events", "queue_delayed_shrink_events", "queue_shrinks_with_items_present", "queue_blocking_waits",
			"queue_close_ops", "queue_close_remaining_ops", "queue_conc_histories", "queue_conc_overlapping_op_pairs"},
		Run: runCase,
	})
}
