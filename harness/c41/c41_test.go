// C41: Survey collects one answer per node and terminates.
package c41

import (
	"context"
	"errors"
	"fmt"
	"sort"
	"strconv"
	"strings"
	"sync"
	"testing"
	"time"

	"github.com/centrifugal/centrifuge"
	"github.com/centrifugal/centrifuge/internal/controlproto"
	"github.com/centrifugal/centrifuge/verifx/kit"
)

const eps = time.Millisecond // virtual time is exact; eps only separates "same instant" from "later"

const defaultTimeout = 10 * time.Second // Node.Survey without a context deadline

// ---------------------------------------------------------------------------------------------
// plan

type respPlan struct {
	Handler    string        `json:"handler"` // sync | delay | never
	HDelay     time.Duration `json:"handler_delay,omitempty"`
	Fault      string        `json:"fault,omitempty"` // none | short | drop | dup | burst | late (remote responders only)
	FDelay     time.Duration `json:"fault_delay,omitempty"`
	ReqTransit time.Duration `json:"request_transit,omitempty"`
	Code       uint32        `json:"code"`
}

type surveyPlan struct {
	Idx     int               `json:"idx"`
	Token   string            `json:"token"`
	Issuer  int               `json:"issuer"`
	To      int               `json:"to"` // -1 = all nodes
	Start   time.Duration     `json:"start"`
	Timeout time.Duration     `json:"timeout"` // 0 = no context deadline (library default 10s)
	Resp    map[int]*respPlan `json:"responders"`

	// observations
	mu       sync.Mutex
	done     bool
	t0, t1   time.Duration
	res      map[string]centrifuge.SurveyResult
	err      error
	localCb  map[int]time.Duration // responder idx -> instant its handler called back (any node)
	handled  map[int]int           // responder idx -> handler invocations
}

func (s *surveyPlan) deadline() time.Duration {
	if s.Timeout == 0 {
		return s.Start + defaultTimeout
	}
	return s.Start + s.Timeout
}

// ---------------------------------------------------------------------------------------------
// in-memory controller bus

type delivery struct {
	Kind      string        `json:"kind"` // node | request | response | other
	From      int           `json:"from"`
	To        int           `json:"to"`
	Token     string        `json:"token,omitempty"`
	Responder int           `json:"responder"`
	Fault     string        `json:"fault,omitempty"`
	Copy      int           `json:"copy"`
	Sent      time.Duration `json:"sent"`
	T0        time.Duration `json:"handle_start"`
	T1        time.Duration `json:"handle_end"`
	Entered   bool          `json:"entered"`
	Returned  bool          `json:"returned"`
	Err       string        `json:"err,omitempty"`
}

type msg struct {
	data []byte
	d    *delivery
}

type bus struct {
	x        *sworld
	parallel bool
	dec      *controlproto.ProtobufDecoder

	mu       sync.Mutex
	handlers []centrifuge.ControlEventHandler // by node idx
	inbox    []chan msg
	log      []*delivery
	timers   []*time.Timer
	stopped  bool
	dropped  int
	stuck    int
	wg       sync.WaitGroup
}

// nodeCtl is the centrifuge.Controller of one node.
type nodeCtl struct {
	b   *bus
	idx int
}

func (c *nodeCtl) RegisterControlEventHandler(h centrifuge.ControlEventHandler) error {
	b := c.b
	b.mu.Lock()
	b.handlers[c.idx] = h
	b.mu.Unlock()
	if !b.parallel {
		ch := b.inbox[c.idx]
		b.wg.Add(1)
		go func() {
			defer b.wg.Done()
			for m := range ch {
				b.handle(c.idx, m)
			}
		}()
	}
	return nil
}

func (c *nodeCtl) PublishControl(data []byte, nodeID, _ string) error {
	return c.b.publish(c.idx, append([]byte(nil), data...), nodeID)
}

// spinMax bounds the busy-wait (yields, no sleeping) for HandleControl to return. A call
// that blocks on a lock-protected channel send freezes the bubble's clock, so "returned
// at the same virtual instant" can only be observed by not letting time pass at all.
const spinMax = 3_000_000

func (b *bus) handle(to int, m msg) {
	b.mu.Lock()
	h := b.handlers[to]
	b.mu.Unlock()
	if h == nil {
		return
	}
	t0 := b.x.w.Now()
	b.mu.Lock()
	m.d.T0, m.d.Entered = t0, true
	b.mu.Unlock()
	done := make(chan struct{})
	go func() {
		defer close(done)
		err := h.HandleControl(m.data)
		t1 := b.x.w.Now()
		b.mu.Lock()
		m.d.T1, m.d.Returned = t1, true
		if err != nil {
			m.d.Err = err.Error()
		}
		b.mu.Unlock()
	}()
	returned := func() bool {
		select {
		case <-done:
			return true
		default:
			return false
		}
	}
	if !kit.SpinUntil(returned, spinMax) {
		if m.d.Kind == "response" {
			b.mu.Lock()
			b.stuck++
			d := *m.d
			b.mu.Unlock()
			b.x.c.Violation("c41-handle-control-blocked", fmt.Sprintf("HandleControl with a survey response (survey %s, responder %d, fault %q, copy %d) entered at %s did not return although nothing else could run (%d yields)", d.Token, d.Responder, d.Fault, d.Copy, d.T0, spinMax), d)
		}
		<-done
	}
}

// send hands one copy to node `to` after delay (0 = now), never on the publisher's goroutine.
func (b *bus) send(to int, data []byte, d *delivery, delay time.Duration) {
	b.mu.Lock()
	if b.stopped {
		b.mu.Unlock()
		return
	}
	b.log = append(b.log, d)
	m := msg{data: data, d: d}
	fire := func() {
		if b.parallel {
			b.wg.Add(1)
			go func() {
				defer b.wg.Done()
				b.handle(to, m)
			}()
			return
		}
		b.mu.Lock()
		stopped := b.stopped
		b.mu.Unlock()
		if !stopped {
			b.inbox[to] <- m
		}
	}
	if delay > 0 {
		b.timers = append(b.timers, time.AfterFunc(delay, fire))
		b.mu.Unlock()
		return
	}
	b.mu.Unlock()
	fire()
}

func (b *bus) publish(from int, data []byte, nodeID string) error {
	x := b.x
	now := x.w.Now()
	cmd, err := b.dec.DecodeCommand(data)
	if err != nil {
		return err
	}
	targets := []int{}
	if nodeID == "" {
		for i := range x.nodes {
			targets = append(targets, i)
		}
	} else if i, ok := x.idxOf(nodeID); ok {
		targets = append(targets, i)
	}
	switch {
	case cmd.SurveyResponse != nil:
		responder, token := parseResp(cmd.SurveyResponse.Data)
		sp := x.byToken[token]
		var rp *respPlan
		if sp != nil {
			rp = sp.Resp[responder]
		}
		for _, to := range targets {
			mk := func(copy int, fault string) *delivery {
				return &delivery{Kind: "response", From: from, To: to, Token: token, Responder: responder, Fault: fault, Copy: copy, Sent: now}
			}
			if rp == nil {
				b.send(to, data, mk(0, "unplanned"), 0)
				continue
			}
			switch rp.Fault {
			case "drop":
				b.mu.Lock()
				b.dropped++
				b.mu.Unlock()
			case "short":
				b.send(to, data, mk(0, "short"), rp.FDelay)
			case "dup":
				b.send(to, data, mk(0, "dup"), 0)
				b.send(to, data, mk(1, "dup"), rp.FDelay)
			case "burst":
				for k := 0; k < 6; k++ {
					b.send(to, data, mk(k, "burst"), 0)
				}
			case "late":
				delay := sp.deadline() - now + rp.FDelay
				if delay < rp.FDelay {
					delay = rp.FDelay
				}
				b.send(to, data, mk(0, "late"), delay)
			default:
				b.send(to, data, mk(0, ""), 0)
			}
		}
	case cmd.SurveyRequest != nil:
		token := string(cmd.SurveyRequest.Data)
		sp := x.byToken[token]
		for _, to := range targets {
			var delay time.Duration
			if sp != nil && sp.Resp[to] != nil {
				delay = sp.Resp[to].ReqTransit
			}
			b.send(to, data, &delivery{Kind: "request", From: from, To: to, Token: token, Responder: -1, Sent: now}, delay)
		}
	default:
		kind := "other"
		if cmd.Node != nil {
			kind = "node"
		}
		for _, to := range targets {
			b.send(to, data, &delivery{Kind: kind, From: from, To: to, Responder: -1, Sent: now}, 0)
		}
	}
	return nil
}

func (b *bus) stop() {
	b.mu.Lock()
	b.stopped = true
	for _, t := range b.timers {
		t.Stop()
	}
	b.mu.Unlock()
	if !b.parallel {
		for _, ch := range b.inbox {
			close(ch)
		}
	}
	b.wg.Wait()
}

func respData(responder int, token string) []byte {
	return []byte("r=" + strconv.Itoa(responder) + "|" + token)
}

func parseResp(b []byte) (int, string) {
	s := string(b)
	if !strings.HasPrefix(s, "r=") {
		return -1, s
	}
	i := strings.IndexByte(s, '|')
	if i < 0 {
		return -1, s
	}
	n, err := strconv.Atoi(s[2:i])
	if err != nil {
		return -1, s
	}
	return n, s[i+1:]
}

// ---------------------------------------------------------------------------------------------

type sworld struct {
	c       *kit.Case
	w       *kit.World
	nodes   []*centrifuge.Node
	ids     []string
	b       *bus
	surveys []*surveyPlan
	byToken map[string]*surveyPlan
}

func (x *sworld) idxOf(id string) (int, bool) {
	for i, v := range x.ids {
		if v == id {
			return i, true
		}
	}
	return -1, false
}

func ms(n int) time.Duration { return time.Duration(n) * time.Millisecond }

func (x *sworld) onSurvey(j int) centrifuge.SurveyHandler {
	return func(e centrifuge.SurveyEvent, cb centrifuge.SurveyCallback) {
		token := string(e.Data)
		sp := x.byToken[token]
		if sp == nil {
			return
		}
		sp.mu.Lock()
		sp.handled[j]++
		rp := sp.Resp[j]
		sp.mu.Unlock()
		if rp == nil {
			return // request reached a node it was not addressed to (reported by the oracle)
		}
		answer := func() {
			sp.mu.Lock()
			if _, ok := sp.localCb[j]; !ok {
				sp.localCb[j] = x.w.Now()
			}
			sp.mu.Unlock()
			cb(centrifuge.SurveyReply{Code: rp.Code, Data: respData(j, token)})
		}
		switch rp.Handler {
		case "sync":
			answer()
		case "delay":
			x.b.wg.Add(1)
			go func() {
				defer x.b.wg.Done()
				time.Sleep(rp.HDelay)
				answer()
			}()
		}
	}
}

func (x *sworld) gen(n int) {
	r := x.c.R
	nS := r.Range(6, 14)
	starts := []time.Duration{ms(10), ms(10), ms(11), ms(60), ms(200), ms(210), ms(500), ms(1200), ms(1210), ms(1700), ms(2500), ms(2500)}
	for i := 0; i < nS; i++ {
		sp := &surveyPlan{Idx: i, Token: fmt.Sprintf("s%d-%d", i, r.Intn(1_000_000)), Issuer: r.Intn(n), To: -1,
			Resp: map[int]*respPlan{}, localCb: map[int]time.Duration{}, handled: map[int]int{}}
		sp.Start = kit.Pick(r, starts) + ms(r.Intn(3))
		sp.Timeout = kit.Pick(r, []time.Duration{ms(50), ms(200), ms(200), time.Second, time.Second, 0})
		switch r.Intn(10) {
		case 0:
			sp.To = sp.Issuer
		case 1, 2:
			sp.To = (sp.Issuer + 1 + r.Intn(n-1)) % n
		}
		eff := sp.Timeout
		if eff == 0 {
			eff = defaultTimeout
		}
		for j := 0; j < n; j++ {
			if sp.To >= 0 && sp.To != j {
				continue
			}
			rp := &respPlan{Handler: "sync", Fault: "none", Code: uint32(r.Range(0, 9))}
			switch r.Intn(20) {
			case 0:
				rp.Handler = "never"
			case 3, 4, 5, 6, 7, 8, 9:
				rp.Handler = "delay"
				rp.HDelay = kit.Pick(r, []time.Duration{ms(1), ms(1), ms(10), ms(10), eff / 4, eff / 2, eff / 2, eff - ms(5), eff - ms(5), eff + ms(5), 2 * eff})
			}
			if j != sp.Issuer {
				rp.ReqTransit = kit.Pick(r, []time.Duration{0, 0, 0, ms(2)})
				switch r.Intn(20) {
				case 0:
					rp.Fault = "drop"
				case 2, 3, 4, 1:
					rp.Fault = "dup"
					rp.FDelay = kit.Pick(r, []time.Duration{0, 0, ms(1), eff + ms(10), ms(1500)})
				case 5, 6:
					rp.Fault = "late"
					rp.FDelay = kit.Pick(r, []time.Duration{ms(5), ms(150), ms(300), time.Second})
				case 7:
					rp.Fault = "burst"
				case 8, 9:
					rp.Fault = "short"
					rp.FDelay = ms(r.Range(1, 20))
				}
			}
			sp.Resp[j] = rp
		}
		x.surveys = append(x.surveys, sp)
		x.byToken[sp.Token] = sp
	}
}

func (x *sworld) runSurvey(sp *surveyPlan) {
	time.Sleep(sp.Start - x.w.Now())
	ctx := context.Background()
	if sp.Timeout > 0 {
		var cancel context.CancelFunc
		ctx, cancel = context.WithTimeout(ctx, sp.Timeout)
		defer cancel()
	}
	to := ""
	if sp.To >= 0 {
		to = x.ids[sp.To]
	}
	t0 := x.w.Now()
	res, err := x.nodes[sp.Issuer].Survey(ctx, "c41", []byte(sp.Token), to)
	t1 := x.w.Now()
	sp.mu.Lock()
	sp.done, sp.t0, sp.t1, sp.res, sp.err = true, t0, t1, res, err
	sp.mu.Unlock()
}

// ---------------------------------------------------------------------------------------------
// oracle

func (x *sworld) evaluate(sp *surveyPlan, log []*delivery) string {
	c := x.c
	detail := func() any {
		var mine []*delivery
		for _, d := range log {
			if d.Token == sp.Token {
				mine = append(mine, d)
			}
		}
		keys := []string{}
		for k, v := range sp.res {
			i, _ := x.idxOf(k)
			keys = append(keys, fmt.Sprintf("node%d:code=%d:data=%s", i, v.Code, v.Data))
		}
		sort.Strings(keys)
		var concurrent []*surveyPlan
		for _, o := range x.surveys {
			if o != sp && o.Issuer == sp.Issuer {
				concurrent = append(concurrent, o)
			}
		}
		sp.mu.Lock()
		cbs := fmt.Sprint(sp.localCb)
		sp.mu.Unlock()
		return map[string]any{"survey": sp, "returned_at": sp.t1.String(), "started_at": sp.t0.String(), "err": fmt.Sprint(sp.err), "result": keys,
			"deliveries": mine, "other_surveys_of_issuer": concurrent, "nodes": len(x.nodes), "bus_parallel": x.b.parallel,
			"handler_callbacks": cbs}
	}
	if !sp.done {
		c.Violation("c41-survey-never-returned", fmt.Sprintf("survey %s of node %d did not return (deadline %s)", sp.Token, sp.Issuer, sp.deadline()), detail())
		return "violation"
	}
	if sp.err != nil && !errors.Is(sp.err, context.DeadlineExceeded) {
		c.Violation("c41-survey-unexpected-error", fmt.Sprintf("survey %s returned error %v", sp.Token, sp.err), detail())
		return "violation"
	}
	D := sp.deadline()
	// answer instants: the first complete delivery of the node's response to the issuer (remote),
	// the handler callback (issuer itself)
	answered := map[int]time.Duration{}
	for _, d := range log {
		if d.Kind != "response" || d.Token != sp.Token || d.To != sp.Issuer || !d.Returned {
			continue
		}
		if t, ok := answered[d.Responder]; !ok || d.T1 < t {
			answered[d.Responder] = d.T1
		}
	}
	sp.mu.Lock()
	if t, ok := sp.localCb[sp.Issuer]; ok && sp.Resp[sp.Issuer] != nil {
		answered[sp.Issuer] = t
	}
	sp.mu.Unlock()

	// More messages than expected nodes reached the issuer while the survey was open
	// (duplicates): the one defect known to lose answers gets its own class.
	msgs := 0
	for _, d := range log {
		if d.Kind == "response" && d.Token == sp.Token && d.To == sp.Issuer && d.Returned && d.T1 <= sp.t1 {
			msgs++
		}
	}
	if _, ok := answered[sp.Issuer]; ok && sp.Resp[sp.Issuer] != nil {
		msgs++
	}
	lostClass := func(cls string) string {
		if msgs > len(sp.Resp) {
			return "c41-answer-dropped-when-duplicates-overflow-reply-buffer"
		}
		return cls
	}
	// 1. result keys: expected nodes that responded, data of this very survey
	for id, v := range sp.res {
		j, ok := x.idxOf(id)
		if !ok || sp.Resp[j] == nil {
			c.Violation("c41-result-from-unexpected-node", fmt.Sprintf("survey %s: result contains node %q which the survey was not addressed to", sp.Token, id), detail())
			return "violation"
		}
		rj, tok := parseResp(v.Data)
		if tok != sp.Token {
			c.Violation("c41-result-belongs-to-another-survey", fmt.Sprintf("survey %s: result of node %d carries the answer to survey %s", sp.Token, j, tok), detail())
			return "violation"
		}
		if rj != j || v.Code != sp.Resp[j].Code {
			c.Violation("c41-result-attributed-to-wrong-node", fmt.Sprintf("survey %s: result under node %d is the answer of node %d (code %d, expected %d)", sp.Token, j, rj, v.Code, sp.Resp[j].Code), detail())
			return "violation"
		}
		t, ok := answered[j]
		if !ok || t > sp.t1+eps {
			c.Violation("c41-result-without-response", fmt.Sprintf("survey %s: result contains node %d whose response had not reached the issuer when Survey returned at %s", sp.Token, j, sp.t1), detail())
			return "violation"
		}
	}
	// 2. termination instant
	all := true
	var last time.Duration
	ambiguous := false
	for j := range sp.Resp {
		t, ok := answered[j]
		if ok && t > D-2*eps && t < D+2*eps {
			ambiguous = true
		}
		if !ok || t >= D {
			all = false
			continue
		}
		if t > last {
			last = t
		}
	}
	if ambiguous {
		c.Count("surveys_with_answer_at_the_deadline_instant_skipped", 1)
		return "ambiguous"
	}
	outcome := ""
	if all {
		if last < sp.t0 {
			last = sp.t0
		}
		switch {
		case sp.t1 > last+eps:
			c.Violation(lostClass("c41-survey-returned-late-after-all-answered"), fmt.Sprintf("survey %s (node %d, %d expected nodes, %d reply messages while open): every expected node had answered by %s but Survey returned at %s (deadline %s, err=%v, %d results)", sp.Token, sp.Issuer, len(sp.Resp), msgs, last, sp.t1, D, sp.err, len(sp.res)), detail())
			return "violation"
		case sp.err != nil || len(sp.res) != len(sp.Resp):
			c.Violation("c41-survey-incomplete-although-all-answered", fmt.Sprintf("survey %s: every expected node answered by %s, Survey returned at %s with %d of %d results, err=%v", sp.Token, last, sp.t1, len(sp.res), len(sp.Resp), sp.err), detail())
			return "violation"
		}
		outcome = "complete"
		c.Count("surveys_complete_before_deadline", 1)
	} else {
		switch {
		case sp.t1 > D+eps:
			c.Violation("c41-survey-overran-deadline", fmt.Sprintf("survey %s: deadline %s, Survey returned at %s", sp.Token, D, sp.t1), detail())
			return "violation"
		case sp.t1 < D-eps:
			c.Violation("c41-survey-returned-before-deadline-without-all-answers", fmt.Sprintf("survey %s: returned at %s before the deadline %s although %d of %d expected nodes had not answered", sp.Token, sp.t1, D, len(sp.Resp)-len(sp.res), len(sp.Resp)), detail())
			return "violation"
		case !errors.Is(sp.err, context.DeadlineExceeded):
			c.Violation("c41-survey-timeout-without-error", fmt.Sprintf("survey %s ended at its deadline with err=%v", sp.Token, sp.err), detail())
			return "violation"
		}
		outcome = "deadline"
		if sp.Timeout == 0 {
			c.Count("surveys_ended_at_default_deadline", 1)
		}
		c.Count("surveys_ended_at_deadline", 1)
		c.Count("partial_results_at_deadline", len(sp.res))
	}
	// 3. answers that reached the issuer well before Survey returned are in the result
	for j, t := range answered {
		if t < sp.t1-eps && t < D-eps {
			if _, ok := sp.res[x.ids[j]]; !ok {
				c.Violation(lostClass("c41-delivered-response-missing-from-result"), fmt.Sprintf("survey %s (%d expected nodes, %d reply messages while open): the response of node %d reached the issuer at %s, Survey returned at %s without it", sp.Token, len(sp.Resp), msgs, j, t, sp.t1), detail())
				return "violation"
			}
		}
	}
	return outcome
}

func runCase(c *kit.Case) {
	r := c.R
	x := &sworld{c: c, w: kit.NewWorld(c), byToken: map[string]*surveyPlan{}}
	n := r.Range(3, 5)
	x.b = &bus{x: x, parallel: r.Bool(), dec: controlproto.NewProtobufDecoder(), handlers: make([]centrifuge.ControlEventHandler, n)}
	for i := 0; i < n; i++ {
		x.b.inbox = append(x.b.inbox, make(chan msg, 8192))
	}
	x.nodes = make([]*centrifuge.Node, n)
	x.ids = make([]string, n)
	for i := 0; i < n; i++ {
		i := i
		x.nodes[i], _ = x.w.NewNode(centrifuge.Config{Name: fmt.Sprintf("n%d", i)}, func(nd *centrifuge.Node) {
			x.nodes[i] = nd
			x.ids[i] = nd.ID()
			nd.SetController(&nodeCtl{b: x.b, idx: i})
			nd.OnSurvey(x.onSurvey(i))
		})
	}
	// nodes learn about each other from the node-info control messages
	time.Sleep(5 * time.Millisecond)
	x.w.Settle()
	for i, nd := range x.nodes {
		info, _ := nd.Info()
		if len(info.Nodes) != n {
			c.Inconclusive(fmt.Sprintf("node %d knows %d of %d nodes before the surveys", i, len(info.Nodes), n))
			x.w.Shutdown()
			x.b.stop()
			return
		}
	}
	x.gen(n)
	var end time.Duration
	var wg sync.WaitGroup
	for _, sp := range x.surveys {
		sp := sp
		if e := sp.deadline() + 3*time.Second; e > end {
			end = e
		}
		wg.Add(1)
		go func() {
			defer wg.Done()
			x.runSurvey(sp)
		}()
	}
	time.Sleep(end - x.w.Now())
	x.w.Settle()

	x.b.mu.Lock()
	log := append([]*delivery(nil), x.b.log...)
	copies := make([]delivery, len(log))
	for i, d := range log {
		copies[i] = *d
	}
	dropped := x.b.dropped
	x.b.mu.Unlock()
	for i := range copies {
		log[i] = &copies[i]
	}

	// a late, duplicate or otherwise unexpected response never blocks its handler
	blocked := false
	for _, d := range log {
		if d.Kind != "response" {
			continue
		}
		c.Count("responses_delivered", 1)
		if d.Fault != "" {
			c.Count("responses_delivered_fault_"+d.Fault, 1)
		}
		sp := x.byToken[d.Token]
		late := sp != nil && sp.done && d.T0 > sp.t1
		if late {
			c.Count("responses_delivered_after_survey_returned", 1)
			for _, o := range x.surveys {
				if o != sp && o.Issuer == sp.Issuer && o.done && o.t0 <= d.T0 && d.T0 <= o.t1 {
					c.Count("late_responses_delivered_while_another_survey_of_the_issuer_was_open", 1)
					break
				}
			}
		}
		if d.Entered && !d.Returned {
			blocked = true
			c.Violation("c41-handle-control-blocked", fmt.Sprintf("HandleControl with a survey response (survey %s, responder %d, fault %q, copy %d) entered at %s and had not returned %s later", d.Token, d.Responder, d.Fault, d.Copy, d.T0, x.w.Now()-d.T0), d)
		} else if d.Returned && d.T1 != d.T0 {
			c.Violation("c41-handle-control-blocked", fmt.Sprintf("HandleControl with a survey response (survey %s, responder %d, fault %q, copy %d) took %s of virtual time", d.Token, d.Responder, d.Fault, d.Copy, d.T1-d.T0), d)
		}
	}
	c.Count("responses_dropped_by_bus", dropped)
	var sigs []string
	for _, sp := range x.surveys {
		// requests reach only addressed nodes
		sp.mu.Lock()
		for j, k := range sp.handled {
			if sp.Resp[j] == nil && k > 0 {
				c.Violation("c41-request-handled-by-unaddressed-node", fmt.Sprintf("survey %s addressed to node %d was handled by node %d", sp.Token, sp.To, j), nil)
			}
		}
		sp.mu.Unlock()
		out := x.evaluate(sp, log)
		kind := "all"
		if sp.To == sp.Issuer {
			kind = "self"
		} else if sp.To >= 0 {
			kind = "one"
		}
		c.Count("surveys_to_"+kind, 1)
		sigs = append(sigs, fmt.Sprintf("%s/%s/%d", kind, out, len(sp.res)))
	}
	c.Eval(len(x.surveys))
	c.Count("nodes", n)
	if x.b.parallel {
		c.Count("bus_parallel_delivery_cases", 1)
	} else {
		c.Count("bus_fifo_delivery_cases", 1)
	}
	sort.Strings(sigs)
	c.Nontrivial(fmt.Sprintf("n%d|%v|%s", n, x.b.parallel, strings.Join(sigs, ",")))
	if c.Index < 32 {
		c.Sample(map[string]any{"nodes": n, "bus_parallel": x.b.parallel, "surveys": x.surveys, "outcomes": sigs})
	}
	for _, sp := range x.surveys {
		blocked = blocked || !sp.done
	}
	if blocked {
		// goroutines stuck inside the library cannot be released: leave the bubble to the runner
		return
	}
	wg.Wait()
	x.w.Shutdown()
	x.b.stop()
	x.w.Settle()
}

func TestC41(t *testing.T) {
	kit.Main(t, kit.Spec{
		ID:     "C41",
		Level:  "fault_enumeration",
		Bubble: true,
		Rule: "one virtual-time bubble per case: 3-5 nodes joined by an in-memory Controller bus (every message is delivered off the publisher's goroutine: one goroutine per message, or one FIFO reader per node; node-addressed messages go to that node only); after the nodes know each other (Node.Info lists all), 6-14 surveys are issued concurrently from random nodes at instants 10 ms - 2.5 s (several share an issuer, so per-node survey ids collide across nodes and windows overlap), addressed to all nodes, one other node or the issuer itself, with context deadlines 50 ms / 200 ms / 1 s or none (10 s default). Per (survey, responder): handler answers synchronously, after a virtual delay (1 ms ... 2x timeout) or never; the bus applies a seeded fault to the response: drop, duplicate (second copy now, 1 ms, after the deadline or 1.5 s later), burst (6 copies at once), delay past the deadline (+5 ms ... +1 s, landing in later surveys of the same issuer), short delay; requests may take 2 ms. Every answer echoes responder id + survey token. " +
			"Oracle: result keys are addressed nodes whose response (matching token, responder, code) had reached the issuer by the return instant; Survey returns at max(answer instants) when every addressed node answered before the deadline (complete result, nil error), else exactly at the deadline with context.DeadlineExceeded (1 ms tolerance on the virtual clock; surveys with an answer within 2 ms of the deadline are skipped); answers delivered before the return are in the result; every HandleControl call carrying a survey response (late, duplicate, for a finished survey) returns at the virtual instant it was entered.",
		Assumptions: []string{
			"the bus honours the Controller contract: a message published for one node id is delivered to that node only (a broadcast of node-addressed responses would let per-node survey ids collide; not generated)",
			"faults are applied to survey responses only; requests and node-info messages are delivered reliably",
			"response ids are not rewritten by the bus: a 'foreign' response is one for a survey that already ended, delivered while later surveys of the same issuer are open",
		},
		Cases:           map[string]int{"quick": 800, "thorough": 12000},
		RequireCounters: []string{"surveys_complete_before_deadline", "surveys_ended_at_deadline", "surveys_ended_at_default_deadline", "responses_delivered_fault_dup", "responses_delivered_fault_burst", "responses_delivered_fault_late", "responses_delivered_fault_short", "responses_dropped_by_bus", "responses_delivered_after_survey_returned", "late_responses_delivered_while_another_survey_of_the_issuer_was_open", "surveys_to_all", "surveys_to_one", "surveys_to_self", "bus_parallel_delivery_cases", "bus_fifo_delivery_cases", "partial_results_at_deadline"},
		Run:             runCase,
	})
}
