#!/usr/bin/env python3
"""Generates /verif/MANIFEST.json from tools/checks.json (one entry per claimed property)."""
import json, os, subprocess
here = os.path.dirname(os.path.dirname(os.path.abspath(__file__)))
props = [json.loads(l) for l in open(os.path.join(here, 'properties.jsonl'))]
checks = json.load(open(os.path.join(here, 'tools', 'checks.json')))
claimed = checks['claimed']
na = checks['not_applicable']
out_checks = []
for p in props:
    pid = p['id']
    if pid in claimed:
        c = claimed[pid]
        out_checks.append({
            "property_id": pid,
            "quick_cmd": f"./check {pid} --tier quick",
            "thorough_cmd": f"./check {pid} --tier thorough",
            "evidence_file": f"/verif/evidence/{pid}.json",
            "replay_cmd_template": f"./check {pid} --replay {{path}}",
            "engine": "harness",
            "level_claimed": {"category": c.get("level", "exploration"), "text": c["text"], "design_ref": f"DESIGN.md section 5, {pid}"},
            "level_note": c["note"],
            "technique": c["technique"],
        })
not_app = []
for p in props:
    pid = p['id']
    if pid not in claimed:
        not_app.append({"property_id": pid, "reason": na.get(pid, "check not built yet (work in progress; see DESIGN.md section 5 for the planned monitor)")})
try:
    commits = subprocess.check_output(['git', '-C', '/repo', 'log', '--format=%H %s', '--grep', '^verif:'], text=True).strip().splitlines()
    commits = [c.split()[0] for c in commits]
except Exception:
    commits = []
m = {
    "version": 1,
    "setup_cmd": "./setup",
    "hooks": {
        "guard": "verif",
        "enable": "go test -c -tags verif (build tag; checks compile /repo's working tree with it through ./check)",
        "baseline_off_cmd": "cd /repo && go test -mod=mod -vet=off -count=1 -timeout 25m ./...",
        "source_commits": commits,
        "add_only": True,
    },
    "engines": [{
        "name": "harness", "path": "/verif/harness",
        "serves_properties": sorted(claimed.keys()),
        "kind_free_text": "Go runtime monitors: real centrifuge code built with -tags verif (and -race), driven by seeded workloads in testing/synctest virtual-time bubbles or real time; oracles are reference models, boundary-recorded histories (porcupine for concurrent ones) and invariant checks at quiescent points",
    }],
    "checks": out_checks,
    "not_applicable": not_app,
    "notes": "Family: runtime monitoring and sanitizers. ./check <id> rebuilds from /repo's working tree (Go build overlay; nothing is written into /repo). Exit 0 held / 1 violation / 2 inconclusive. known_findings.json lists recorded genuine defects.",
}
json.dump(m, open(os.path.join(here, 'MANIFEST.json'), 'w'), indent=1)
print("claimed", len(out_checks), "not_applicable", len(not_app))
