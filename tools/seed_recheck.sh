#!/usr/bin/env bash
# tools/seed_recheck.sh [name...]   — re-runs, for every kept seeded change (default: all), the checks named in its
# meta.json against a scratch worktree with the change applied, and prints caught / MISSED per (change, check).
# Evidence of the unchanged tree is preserved. Uses /tmp/wt-recheck.
set -u
cd /verif
WT=/tmp/wt-recheck
[ -d $WT ] || git -C /repo worktree add -q --detach $WT HEAD
names=("$@"); [ ${#names[@]} -gt 0 ] || names=($(ls seeded))
for NAME in "${names[@]}"; do
  [ -f seeded/$NAME/patch.diff ] || continue
  git -C $WT checkout -q --detach "$(git -C /repo rev-parse HEAD)"; git -C $WT reset -q --hard; git -C $WT clean -fdq
  if ! git -C $WT apply /verif/seeded/$NAME/patch.diff 2>/dev/null && ! git -C $WT apply --3way /verif/seeded/$NAME/patch.diff 2>/dev/null; then
    echo "$NAME: PATCH DOES NOT APPLY"; git -C $WT reset -q --hard; continue
  fi
  ids=$(python3 -c "import json;m=json.load(open('seeded/$NAME/meta.json'));print(' '.join(k for k,v in m['checks'].items() if v['verdict']=='caught'))")
  for id in $ids; do
    cp evidence/$id.json /tmp/evidence_$id.rk 2>/dev/null
    out=$(VERIF_REPO=$WT ./check $id 2>&1 | grep -a -E "^(OK|VIOLATION|INCONCLUSIVE)")
    [ -f /tmp/evidence_$id.rk ] && mv /tmp/evidence_$id.rk evidence/$id.json
    if echo "$out" | grep -q '^VIOLATION'; then
      echo "$NAME $id caught: $(echo "$out" | grep -o 'class=[^ ]*' | sort -u | head -4 | paste -sd' ')"
    else
      echo "$NAME $id MISSED: $(echo "$out" | head -1 | cut -c1-160)"
    fi
  done
  git -C $WT reset -q --hard
done
find replays -name '*.json' -newer tools/seed_recheck.sh -delete 2>/dev/null
