#!/usr/bin/env bash
# tools/seed_log.sh <seed name> <check id>...  — (re)writes seeded/<name>/check_<id>.log by running the checks against a
# scratch worktree (/tmp/wt-recheck) with the stored patch applied; evidence of the unchanged tree is preserved.
set -u
cd /verif
NAME="$1"; shift
WT=/tmp/wt-recheck
[ -d $WT ] || git -C /repo worktree add -q --detach $WT HEAD
git -C $WT reset -q --hard; git -C $WT checkout -q --detach "$(git -C /repo rev-parse HEAD)"; git -C $WT reset -q --hard; git -C $WT clean -fdq
git -C $WT apply /verif/seeded/$NAME/patch.diff 2>/dev/null || git -C $WT apply --3way /verif/seeded/$NAME/patch.diff || { echo "$NAME: patch does not apply"; exit 3; }
touch /tmp/seed_log.marker
for id in "$@"; do
  cp evidence/$id.json /tmp/evidence_$id.sl 2>/dev/null
  VERIF_REPO=$WT ./check $id 2>&1 | grep -a -E "^(OK|VIOLATION|INCONCLUSIVE|KNOWN)" | cut -c1-260 | tee seeded/$NAME/check_$id.log
  cp evidence/$id.json seeded/$NAME/evidence_$id.json 2>/dev/null
  [ -f /tmp/evidence_$id.sl ] && mv /tmp/evidence_$id.sl evidence/$id.json
done
find replays -name '*.json' -newer /tmp/seed_log.marker -delete 2>/dev/null
git -C $WT reset -q --hard
