#!/usr/bin/env python3
import json,sys
pid=sys.argv[1]
# optional: a worktree suffix (second-round seeds live in /tmp/seed/<ID><suffix>) and a one-line description of
# an earlier change to stay away from (the agent still sees nothing of /verif)
suffix=sys.argv[2] if len(sys.argv)>2 else ""
avoid=sys.argv[3] if len(sys.argv)>3 else ""
for l in open('/verif/properties.jsonl'):
    p=json.loads(l)
    if p['id']==pid: break
wt=f"/tmp/seed/{pid}{suffix}"
print(f"""You are a careful Go engineer doing adversarial testing of a test-and-monitoring setup for the library centrifugal/centrifuge (a real-time messaging server library). You work ONLY inside the git worktree {wt} (a checkout of the library). Do not read or write anything under /verif or /repo, and do not look at other directories under /tmp/seed. Offline sandbox: no network. Use `export GOFLAGS=-mod=mod GOPROXY=off` (do NOT set GOSUMDB or GOTOOLCHAIN: that breaks the automatic switch to the cached go1.25 toolchain) and the default `go`. There is no Redis server in this sandbox (Redis-backed tests are skipped), so make your change in code that runs without Redis. Never use `git stash`.

The library is supposed to satisfy this property:

  Title: {p['title']}
  Statement: {p['statement']}
  It must hold over: {p['quantifier']['text']}
  Relevant files: {', '.join(p['anchors']['files'])}

Your task: write ONE small, realistic change to the library's non-test source code (the kind of regression a maintainer could plausibly introduce: a dropped check, an off-by-one, a wrong branch, a missing unlock/ordering change, two sites that each look fine alone) that BREAKS this property, while
  (1) the code still compiles (`go build ./...` and `go vet` need not be clean, build must be), and
  (2) the existing test suite still passes: run `go test -vet=off -count=1 ./...` for the packages you touched and the root package (root package takes ~3-4 min; run it at least once at the end; a test named TestClientSubscribingChannelsCleanupOnClientClose or TestRuntimeStability_* failing only because of machine load can be ignored), and
  (3) the breakage does NOT show up at once under ordinary use: it should need something specific to manifest — a particular interleaving, a fault at a particular point, a multi-step sequence of operations, an unusual input, or a combination of options. Avoid changes that any simple smoke test would catch.
Do not touch files named verif_*.go and do not remove the calls to verifPoint/verifNodePoint (they are inert instrumentation).

Then write a demonstration: a new Go test file in the worktree (e.g. seeded_demo_test.go in the package concerned, package-internal tests are fine) with one test that FAILS with your change applied and PASSES on the original code (verify both WITHOUT `git stash` — the stash is shared between worktrees and other agents use it: save your change with `git diff -- . ":!*_demo_test.go" > SEED/patch.diff`, undo it with `git apply -R SEED/patch.diff`, run the demo test, re-apply with `git apply SEED/patch.diff`, run again; at the end check that `git diff` shows only your own change). The demo may use sleeps/loops to provoke the interleaving but should be reasonably reliable (fails at least 4 of 5 runs with the change).

Deliverables, all inside {wt}/SEED/ :
  patch.diff   — `git diff` of the source change only (not the demo test)
  demo_test.go — a copy of the demonstration test file (say in a comment which package directory it belongs to)
  NOTES.md     — what the change is, why it breaks the property, what it needs in order to manifest, and the exact commands + outputs (pass/fail) you observed for the existing tests and for the demo with and without the change.
{("Somebody else has already tried this regression for the same property, so pick a DIFFERENT mechanism, function and scenario (ideally a different clause of the statement): " + avoid + chr(10)) if avoid else ""}Leave the worktree with your change applied and the demo test in place. Do not commit. Keep your final message short: 5-10 lines summarising the change, what it needs to manifest, and the test results.""")
