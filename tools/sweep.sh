#!/usr/bin/env bash
# tools/sweep.sh <tier> <seed>...   — runs every claimed check at the given seeds (evidence is left by the last seed)
cd /verif
tier="$1"; shift
ids=$(python3 -c "import json;print(' '.join(c['property_id'] for c in json.load(open('MANIFEST.json'))['checks']))")
for s in "$@"; do
  for id in $ids; do
    VERIF_SEED=$s ./check $id --tier $tier 2>&1 | grep -a -E "^(OK|VIOLATION|INCONCLUSIVE)" | cut -c1-220
  done
done
