#!/usr/bin/env bash
# tools/seed_suite.sh <seed name>...  — runs the repository's own test suite (hooks off) with each
# seeded change applied, in the scratch worktree /tmp/wt-suite, and records the tail in seeded/<name>/suite.log
set -u
export GOFLAGS=-mod=mod GOPROXY=off
WT=/tmp/wt-suite
[ -d $WT ] || git -C /repo worktree add -q --detach $WT HEAD
for NAME in "$@"; do
  git -C $WT checkout -q --detach "$(git -C /repo rev-parse HEAD)" && git -C $WT checkout -q -- . && git -C $WT clean -fdq
  git -C $WT apply /verif/seeded/$NAME/patch.diff 2>/dev/null || git -C $WT apply --3way /verif/seeded/$NAME/patch.diff || { echo "$NAME: patch does not apply" | tee /verif/seeded/$NAME/suite.log; continue; }
  (cd $WT && go test -vet=off -count=1 -timeout 25m ./... 2>&1 | grep -E "^(ok|FAIL|--- FAIL|panic:)" | grep -v "no test files") > /verif/seeded/$NAME/suite.log 2>&1
  echo "$NAME: $(grep -c '^ok' /verif/seeded/$NAME/suite.log) ok, $(grep -c '^FAIL\|^--- FAIL' /verif/seeded/$NAME/suite.log) fail"
  git -C $WT checkout -q -- . ; git -C $WT clean -fdq
done
