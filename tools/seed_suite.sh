#!/usr/bin/env bash
# tools/seed_suite.sh <seed name>...  — runs the repository's own test suite (hooks off) with each
# seeded change applied, in the scratch worktree /tmp/wt-suite, and records the tail in seeded/<name>/suite.log
set -u
export GOFLAGS=-mod=mod GOPROXY=off
WT=/tmp/wt-suite
[ -d $WT ] || git -C /repo worktree add -q --detach $WT HEAD
for NAME in "$@"; do
  git -C $WT reset -q --hard; git -C $WT checkout -q --detach "$(git -C /repo rev-parse HEAD)" && git -C $WT reset -q --hard && git -C $WT clean -fdq
  git -C $WT apply /verif/seeded/$NAME/patch.diff 2>/dev/null || git -C $WT apply --3way /verif/seeded/$NAME/patch.diff || { echo "$NAME: patch does not apply" | tee /verif/seeded/$NAME/suite.log; continue; }
  (cd $WT && go test -vet=off -count=1 -timeout 25m ./... 2>&1 | grep -E "^(ok|FAIL|--- FAIL|panic:)" | grep -v "no test files") > /verif/seeded/$NAME/suite.log 2>&1
  failed=$(grep -o '^--- FAIL: [A-Za-z0-9_]*' /verif/seeded/$NAME/suite.log | sed 's/--- FAIL: //' | sort -u | paste -sd'|')
  if [ -n "$failed" ]; then
    # load-sensitive tests (ping latency bounds, 10/25 min package timeouts) fail on a busy machine: run the failed ones alone
    echo "rerun alone: $failed" >> /verif/seeded/$NAME/suite.log
    (cd $WT && go test -vet=off -count=1 -run "^($failed)\$" ./... 2>&1 | grep -v "no tests to run\|no test files" | grep -E "^(ok|FAIL|--- FAIL)" | sed 's/^/rerun: /') >> /verif/seeded/$NAME/suite.log 2>&1
  fi
  echo "$NAME: $(grep -c '^ok' /verif/seeded/$NAME/suite.log) ok, $(grep -c '^FAIL\|^--- FAIL' /verif/seeded/$NAME/suite.log) fail"
  git -C $WT reset -q --hard; git -C $WT clean -fdq
done
