#!/usr/bin/env python3
"""Writes seeded/<name>/meta.json from tools/seeds.json plus the logs seed_eval.sh / seed_suite.sh left there."""
import json, os, re, sys
root = os.path.dirname(os.path.dirname(os.path.abspath(__file__)))
seeds = json.load(open(os.path.join(root, 'tools', 'seeds.json')))
def suite_summary(suite):
    if not suite:
        return 'not run'
    oks = len(re.findall(r'^ok', suite, re.M))
    failed = sorted(set(re.findall(r'^--- FAIL: (\S+)', suite, re.M)))
    pkgfail = re.findall(r'^FAIL\t(\S+)', suite, re.M)
    if not failed and not pkgfail:
        return '%d packages ok, none failing' % oks
    rer = re.findall(r'^rerun: (ok|FAIL|--- FAIL)', suite, re.M)
    if failed and rer and all(x == 'ok' for x in rer):
        return '%d packages ok; %s failed in the full run on a loaded machine and passed when re-run alone' % (oks, ', '.join(failed))
    return '%d packages ok; failing: %s %s (see suite.log)' % (oks, ', '.join(failed), ' '.join(pkgfail))

for name, s in seeds.items():
    d = os.path.join(root, 'seeded', name)
    if not os.path.isdir(d):
        print('missing', name); continue
    def rd(f):
        p = os.path.join(d, f)
        return open(p, errors='replace').read().strip() if os.path.exists(p) else None
    checks = {}
    for f in sorted(os.listdir(d)):
        m = re.match(r'check_(C\d+)\.log$', f)
        if m:
            lines = [l for l in rd(f).splitlines() if l.startswith(('VIOLATION', 'OK', 'INCONCLUSIVE'))]
            verdict = 'caught' if any(l.startswith('VIOLATION') for l in lines) else ('missed' if any(l.startswith('OK') for l in lines) else 'inconclusive')
            classes = sorted(set(re.findall(r'class=(\S+)', '\n'.join(lines))))
            checks[m.group(1)] = {'verdict': verdict, 'classes': classes}
    suite = rd('suite.log')
    meta = {
        'property': s['property'],
        'origin': 'written by an independent sub-agent that was given only the property text and a scratch worktree of the repository',
        'change': s['change'],
        'needs_to_manifest': s['needs'],
        'base_commit': s.get('base', ''),
        'demonstration': {'file': s.get('demo', 'seeded_demo_test.go'),
                          'without_change': (rd('demo_without.log') or '').splitlines()[-1:] ,
                          'with_change': (rd('demo_with.log') or '').splitlines()[-2:]},
        'existing_suite_with_change': suite_summary(suite),
        'what_i_ran': ['tools/seed_eval.sh (scratch worktree /tmp/wt-main at /repo HEAD: demo test without the change, apply patch, go build ./..., demo test with the change, then VERIF_REPO=/tmp/wt-main ./check <id>)',
                       'tools/seed_suite.sh (go test -vet=off -count=1 ./... with the change applied, hooks off)'],
        'checks': checks,
        'history': s.get('history', ''),
    }
    json.dump(meta, open(os.path.join(d, 'meta.json'), 'w'), indent=1)
    print(name, {k: v['verdict'] for k, v in checks.items()}, meta['existing_suite_with_change'])
