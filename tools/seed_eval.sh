#!/usr/bin/env bash
# tools/seed_eval.sh <seed dir under /tmp/seed> <seed name> <check id> [more check ids]
# Confirms an independently written breaking change in a scratch worktree and runs checks against it.
set -u
SRC="$1"; NAME="$2"; shift 2
WT=/tmp/wt-main
export GOFLAGS=-mod=mod GOPROXY=off
cd /verif
[ -d $WT ] || git -C /repo worktree add -q --detach $WT HEAD
git -C $WT reset -q --hard; git -C $WT checkout -q --detach "$(git -C /repo rev-parse HEAD)" && git -C $WT reset -q --hard && git -C $WT clean -fdq
OUT=/verif/seeded/$NAME; mkdir -p $OUT
cp $SRC/SEED/patch.diff $OUT/patch.diff
demo=$(ls $SRC/*demo*_test.go $SRC/*/*demo*_test.go $SRC/*/*/*demo*_test.go 2>/dev/null | grep -v "/SEED/" | head -1)
rel=${demo#$SRC/}
cp "$demo" $OUT/$(basename "$demo")
mkdir -p $WT/$(dirname "$rel"); cp "$demo" $WT/$rel
tests=$(grep -o 'func Test[A-Za-z0-9_]*' "$demo" | sed 's/func //' | paste -sd'|')
pkg=./$(dirname "$rel")
echo "== demo without change ($tests in $pkg)"
(cd $WT && go test -vet=off -count=1 -run "^($tests)\$" $pkg 2>&1 | tail -3) | tee $OUT/demo_without.log
echo "== apply"
if ! git -C $WT apply $OUT/patch.diff; then echo "PATCH DOES NOT APPLY to current HEAD"; git -C $WT apply --3way $OUT/patch.diff || exit 3; fi
(cd $WT && go build ./... ) || { echo BUILD FAILED; exit 4; }
echo "== demo with change"
(cd $WT && go test -vet=off -count=1 -run "^($tests)\$" $pkg 2>&1 | tail -5) | tee $OUT/demo_with.log
rm -f $WT/$rel
for id in "$@"; do
  echo "== check $id against the changed tree"
  cp evidence/$id.json /tmp/evidence_$id.keep 2>/dev/null
  VERIF_REPO=$WT ./check $id 2>&1 | grep -a -E "^(OK|VIOLATION|INCONCLUSIVE|KNOWN)" | cut -c1-260 | tee $OUT/check_$id.log
  cp evidence/$id.json $OUT/evidence_$id.json 2>/dev/null   # what the check observed on the changed tree
  [ -f /tmp/evidence_$id.keep ] && mv /tmp/evidence_$id.keep evidence/$id.json   # evidence/ describes the unchanged tree only
done
find /verif/replays -name '*.json' -newer $OUT/patch.diff -delete 2>/dev/null
git -C $WT reset -q --hard ; git -C $WT clean -fdq
